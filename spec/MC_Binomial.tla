----------------------------- MODULE MC_Binomial -----------------------------
(* Self-test: accelerated binomial sums equal the TLA+ definition, the     *)
(* weights sum to b^n, complementary selections add up, Pascal's row is    *)
(* symmetric.  One state per (n, a).                                       *)
EXTENDS Binomial, TLC
VARIABLES n, a
Bd == 7
Init == n = 0 /\ a = 1
Next == \/ (a < Bd - 1 /\ a' = a + 1 /\ n' = n)
        \/ (a = Bd - 1 /\ n < 14 /\ a' = 1 /\ n' = n + 1)
Spec == Init /\ [][Next]_<<n, a>>
All == [k \in 1..(n + 1) |-> 1]
Alt == [k \in 1..(n + 1) |-> k % 2]
AltC == [k \in 1..(n + 1) |-> 1 - (k % 2)]
Mid == [k \in 1..(n + 1) |-> IF k > n \div 3 /\ k <= n - n \div 4 THEN 1 ELSE 0]
OverrideIsDef == \A sel \in {All, Alt, AltC, Mid} : BinomSumSel(n, a, Bd, sel) = BinomSumSelDef(n, a, Bd, sel)
SumsToOne == BinomSumSel(n, a, Bd, All) = BigPow(BigOfInt(Bd), n)
Complement == BigAdd(BinomSumSel(n, a, Bd, Alt), BinomSumSel(n, a, Bd, AltC)) = BigPowDef(BigOfInt(Bd), n)
PascalSym == \A k \in 1..(n + 1) : PascalRow(n)[k] = PascalRow(n)[n + 2 - k]
=============================================================================
