------------------------------ MODULE IvFamily ------------------------------
(* Bounded instances of the interval session shared by generator and trace   *)
(* validator; selected through environment variables so that one committed   *)
(* .cfg serves both tiers.                                                   *)
EXTENDS IntervalSession, IOUtils

EnvInt(name, default) == IF name \in DOMAIN IOEnv THEN atoi(IOEnv[name]) ELSE default
Family == IF "FAMILY" \in DOMAIN IOEnv THEN IOEnv.FAMILY ELSE "chain"
N      == EnvInt("IV_N", 5)
Box    == EnvInt("IV_BOX", 4)
RelGrid == {0, 4, 8, 16, 32}      \* scaled by 8
RelScale == 8
Rel3Grid == {0, 1, 3, 5, 6, 24}     \* scaled by 8: 0, 1/8, 3/8, 5/8, 3/4, 3 - quotients are not exactly representable

G_B == CASE Family = "chain" -> 0..(N - 1)
         [] Family = "box"   -> (-Box)..Box
         [] Family = "rel"   -> RelGrid
         [] Family = "rel3"  -> Rel3Grid
G_W == CASE Family = "chain" -> (-1)..N
         [] Family = "box"   -> (-(Box + 2))..(Box + 2)      \* every bound plus two outer witnesses on each side
         [] Family = "rel"   -> RelGrid
         [] Family = "rel3"  -> Rel3Grid
G_Scalars == (-Box)..Box

=============================================================================
