------------------------------- MODULE BigNum -------------------------------
(***************************************************************************)
(* Exact arithmetic kernel, pure TLA+.                                     *)
(*                                                                         *)
(* TLC's integers are 32-bit, and its JSON reader truncates non-integers,  *)
(* so every number that matters to a numeric verdict is handled here:      *)
(*   Big     <<s, m>>   s \in {-1,0,1}, m = little-endian limbs base 2^15  *)
(*                      (canonical: no leading zero limb, s = 0 iff m=<<>>)*)
(*   Dyadic  <<b, e>>   the rational b * 2^e  (b a Big, e a TLC integer)   *)
(* Limb products stay below 2^30, sums below 2^31.                         *)
(*                                                                         *)
(* Every operator XxxDef is the definition; the operator Xxx (same         *)
(* meaning) may be replaced by a Java accelerator (java/verif) - module    *)
(* MC_BigNum checks Xxx = XxxDef on random and boundary operands.          *)
(***************************************************************************)
EXTENDS Integers, Sequences

BASE == 32768
LB   == 15

Sgn(x) == x[1]
Mag(x) == x[2]
BigZero == <<0, <<>>>>

RECURSIVE Pow2(_)
Pow2(n) == IF n = 0 THEN 1 ELSE 2 * Pow2(n - 1)        \* n <= 30

\* ---------------------------------------------------------------- magnitudes
RECURSIVE StripM(_)
StripM(m) == IF m = <<>> THEN m
             ELSE IF m[Len(m)] = 0 THEN StripM(SubSeq(m, 1, Len(m) - 1)) ELSE m

RECURSIVE MagOfNat(_)
MagOfNat(n) == IF n = 0 THEN <<>> ELSE <<n % BASE>> \o MagOfNat(n \div BASE)

RECURSIVE MagCmpFrom(_, _, _)
MagCmpFrom(a, b, i) == IF i = 0 THEN 0
                       ELSE IF a[i] < b[i] THEN -1
                       ELSE IF a[i] > b[i] THEN 1
                       ELSE MagCmpFrom(a, b, i - 1)
MagCmp(a, b) == IF Len(a) < Len(b) THEN -1
                ELSE IF Len(a) > Len(b) THEN 1
                ELSE MagCmpFrom(a, b, Len(a))

Limb(m, i) == IF i <= Len(m) THEN m[i] ELSE 0

RECURSIVE MagAddFrom(_, _, _, _)
MagAddFrom(a, b, i, carry) ==
    IF i > Len(a) /\ i > Len(b)
    THEN (IF carry = 0 THEN <<>> ELSE <<carry>>)
    ELSE LET t == Limb(a, i) + Limb(b, i) + carry
         IN <<t % BASE>> \o MagAddFrom(a, b, i + 1, t \div BASE)
MagAdd(a, b) == MagAddFrom(a, b, 1, 0)

\* a >= b required
RECURSIVE MagSubFrom(_, _, _, _)
MagSubFrom(a, b, i, borrow) ==
    IF i > Len(a) THEN <<>>
    ELSE LET t == a[i] - Limb(b, i) - borrow
         IN IF t < 0 THEN <<t + BASE>> \o MagSubFrom(a, b, i + 1, 1)
            ELSE <<t>> \o MagSubFrom(a, b, i + 1, 0)
MagSub(a, b) == StripM(MagSubFrom(a, b, 1, 0))

\* a * (single limb d) shifted by `sh` limbs
RECURSIVE MagMulLimbFrom(_, _, _, _)
MagMulLimbFrom(a, d, i, carry) ==
    IF i > Len(a) THEN (IF carry = 0 THEN <<>> ELSE <<carry>>)
    ELSE LET t == a[i] * d + carry
         IN <<t % BASE>> \o MagMulLimbFrom(a, d, i + 1, t \div BASE)
Zeros(n) == [i \in 1..n |-> 0]
RECURSIVE MagMulFrom(_, _, _)
MagMulFrom(a, b, j) ==
    IF j > Len(b) THEN <<>>
    ELSE MagAdd(IF b[j] = 0 THEN <<>> ELSE Zeros(j - 1) \o MagMulLimbFrom(a, b[j], 1, 0),
                MagMulFrom(a, b, j + 1))
MagMul(a, b) == IF a = <<>> \/ b = <<>> THEN <<>> ELSE StripM(MagMulFrom(a, b, 1))

\* ---------------------------------------------------------------- signed
BigOfInt(n) == IF n = 0 THEN BigZero
               ELSE IF n > 0 THEN <<1, MagOfNat(n)>> ELSE <<-1, MagOfNat(-n)>>
\* from limbs as they appear in a trace (possibly with leading zeros)
BigOfLimbs(s, m) == LET mm == StripM(m) IN IF mm = <<>> THEN BigZero ELSE <<s, mm>>

BigNeg(x) == <<-Sgn(x), Mag(x)>>
BigAbs(x) == <<(IF Sgn(x) = 0 THEN 0 ELSE 1), Mag(x)>>
BigSign(x) == Sgn(x)

BigAddDef(x, y) ==
    IF Sgn(x) = 0 THEN y
    ELSE IF Sgn(y) = 0 THEN x
    ELSE IF Sgn(x) = Sgn(y) THEN <<Sgn(x), MagAdd(Mag(x), Mag(y))>>
    ELSE LET c == MagCmp(Mag(x), Mag(y))
         IN IF c = 0 THEN BigZero
            ELSE IF c > 0 THEN <<Sgn(x), MagSub(Mag(x), Mag(y))>>
            ELSE <<Sgn(y), MagSub(Mag(y), Mag(x))>>
BigSubDef(x, y) == BigAddDef(x, BigNeg(y))
BigMulDef(x, y) == IF Sgn(x) = 0 \/ Sgn(y) = 0 THEN BigZero
                   ELSE <<Sgn(x) * Sgn(y), MagMul(Mag(x), Mag(y))>>
BigCmpDef(x, y) == IF Sgn(x) # Sgn(y) THEN (IF Sgn(x) < Sgn(y) THEN -1 ELSE 1)
                   ELSE IF Sgn(x) = 0 THEN 0
                   ELSE Sgn(x) * MagCmp(Mag(x), Mag(y))
\* x * 2^k, k >= 0
BigShlDef(x, k) == IF Sgn(x) = 0 THEN x
                   ELSE <<Sgn(x), Zeros(k \div LB) \o MagMulLimbFrom(Mag(x), Pow2(k % LB), 1, 0)>>

\* floor(|x| / 2^k) with the sign of x (truncation towards zero of the magnitude), k >= 0
RECURSIVE MagShrSmall(_, _, _, _)
\* divide magnitude m by 2^b (0 <= b < LB), processing limbs from the most significant (index i) down
MagShrSmall(m, b, i, carry) ==
    IF i = 0 THEN <<>>
    ELSE LET cur == carry * BASE + m[i]
             q   == cur \div Pow2(b)
             r   == cur % Pow2(b)
         IN MagShrSmall(m, b, i - 1, r) \o <<q>>
MagShr(m, k) == LET drop == k \div LB
                    rest == IF drop >= Len(m) THEN <<>> ELSE SubSeq(m, drop + 1, Len(m))
                IN StripM(MagShrSmall(rest, k % LB, Len(rest), 0))
BigShrDef(x, k) == LET mm == MagShr(Mag(x), k) IN IF mm = <<>> THEN BigZero ELSE <<Sgn(x), mm>>

\* number of bits of |x| (0 for zero)
RECURSIVE BitsOfLimb(_)
BitsOfLimb(d) == IF d = 0 THEN 0 ELSE 1 + BitsOfLimb(d \div 2)
BigBits(x) == IF Sgn(x) = 0 THEN 0
              ELSE LB * (Len(Mag(x)) - 1) + BitsOfLimb(Mag(x)[Len(Mag(x))])

\* floor(x / y) for x >= 0, y > 0: binary long division on the bits of x
RECURSIVE DivBits(_, _, _, _, _)
\* process bit i (from the top) of x: rem = 2*rem + bit ; if rem >= y then rem -= y, quotient bit 1
BitAt(x, i) == LET limb == Mag(x)[(i \div LB) + 1] IN (limb \div Pow2(i % LB)) % 2        \* i = 0 is the lsb
DivBits(x, y, i, q, rem) ==
    IF i < 0 THEN q
    ELSE LET r2 == BigAddDef(BigShlDef(rem, 1), BigOfInt(BitAt(x, i)))
             ge == BigCmpDef(r2, y) >= 0
         IN DivBits(x, y, i - 1,
                    BigAddDef(BigShlDef(q, 1), BigOfInt(IF ge THEN 1 ELSE 0)),
                    IF ge THEN BigSubDef(r2, y) ELSE r2)
BigDivFloorDef(x, y) == IF Sgn(x) = 0 THEN BigZero ELSE DivBits(x, y, BigBits(x) - 1, BigZero, BigZero)

\* accelerated entry points (Java overrides replace these; the definitions are the meaning)
BigAdd(x, y) == BigAddDef(x, y)
BigSub(x, y) == BigSubDef(x, y)
BigMul(x, y) == BigMulDef(x, y)
BigCmp(x, y) == BigCmpDef(x, y)
BigShl(x, k) == BigShlDef(x, k)
BigShr(x, k) == BigShrDef(x, k)
BigDivFloor(x, y) == BigDivFloorDef(x, y)

BigLt(x, y) == BigCmp(x, y) < 0
BigLe(x, y) == BigCmp(x, y) <= 0
BigSq(x)    == BigMul(x, x)
BigMulInt(x, n) == BigMul(x, BigOfInt(n))
BigPow2(k)  == BigShl(BigOfInt(1), k)


\* ---------------------------------------------------------------- dyadics
Dy(b, e) == <<b, e>>
DyZero   == <<BigZero, 0>>
DyOfInt(n) == <<BigOfInt(n), 0>>
DyB(d) == d[1]
DyE(d) == d[2]
DySign(d) == Sgn(DyB(d))
DyNeg(d) == <<BigNeg(DyB(d)), DyE(d)>>
DyAbs(d) == <<BigAbs(DyB(d)), DyE(d)>>
\* mantissa of d at exponent e <= DyE(d)
DyAt(d, e) == BigShl(DyB(d), DyE(d) - e)
Min2(a, b) == IF a <= b THEN a ELSE b
DyAdd(x, y) == LET e == Min2(DyE(x), DyE(y)) IN <<BigAdd(DyAt(x, e), DyAt(y, e)), e>>
DySub(x, y) == DyAdd(x, DyNeg(y))
DyMul(x, y) == <<BigMul(DyB(x), DyB(y)), DyE(x) + DyE(y)>>
DySq(x)     == DyMul(x, x)
DyMulInt(x, n) == <<BigMulInt(DyB(x), n), DyE(x)>>
DyShift(x, k)  == <<DyB(x), DyE(x) + k>>          \* x * 2^k
DyCmp(x, y) == LET e == Min2(DyE(x), DyE(y)) IN BigCmp(DyAt(x, e), DyAt(y, e))
DyLt(x, y) == DyCmp(x, y) < 0
DyLe(x, y) == DyCmp(x, y) <= 0
DyEq(x, y) == DyCmp(x, y) = 0
\* floor of a non-negative dyadic, as a Big
DyFloorNN(d) == IF DyE(d) >= 0 THEN BigShl(DyB(d), DyE(d)) ELSE BigShr(DyB(d), -DyE(d))
\* a Big that is known to be small, as a TLC integer (<= 2 limbs)
BigToInt(x) == Sgn(x) * (IF Len(Mag(x)) = 0 THEN 0 ELSE IF Len(Mag(x)) = 1 THEN Mag(x)[1]
                         ELSE Mag(x)[1] + BASE * Mag(x)[2])
BigFitsInt(x) == Len(Mag(x)) <= 2
DyMax(x, y) == IF DyLe(x, y) THEN y ELSE x
DyMin(x, y) == IF DyLe(x, y) THEN x ELSE y

=============================================================================
