SPECIFICATION Spec
INVARIANTS
  RowsInPlace
  Enclosures
  Signs
  MonotoneInLevel
  DominatesNormal
  Symmetric
  ClosedFormNu2
  OneTwoIdentity
CHECK_DEADLOCK FALSE
