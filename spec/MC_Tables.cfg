SPECIFICATION Spec
INVARIANTS
  RowsInPlace
  Enclosures
  Signs
  MonotoneInLevel
  DominatesNormal
  Symmetric
  ClosedFormNu2
  OneTwoIdentity
  DesignedBracket
CHECK_DEADLOCK FALSE
