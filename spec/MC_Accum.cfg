SPECIFICATION Spec
CONSTRAINT Bounded
INVARIANTS
  Refinement
  MergeLaws
  OnlyAdmissible
PROPERTY RejectKeeps
CHECK_DEADLOCK FALSE
