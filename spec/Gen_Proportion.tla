---------------------------- MODULE Gen_Proportion ----------------------------
(***************************************************************************)
(* Case generator for proportion intervals (C02, C17, z part of C06).      *)
(*  GRP=row    : for every n <= PROP_N and sampled large n: every k in     *)
(*               0..n+1 in ascending order x levels x kinds x {Wilson,     *)
(*               Wald}; at one confidence per n also every front-end       *)
(*  GRP=mult   : (m n, m k) for m in 1, 2, 3, 10, 100 (shrinking with n)   *)
(*  GRP=levels : fixed (n, k, kind), ascending levels (widening)           *)
(***************************************************************************)
EXTENDS Integers, Sequences, TLC, Json, IOUtils

EnvInt(name, default) == IF name \in DOMAIN IOEnv THEN atoi(IOEnv[name]) ELSE default
Grp  == IF "GRP" \in DOMAIN IOEnv THEN IOEnv.GRP ELSE "row"
NMax == EnvInt("PROP_N", 40)
NBig == EnvInt("PROP_BIG", 6)          \* number of sampled large n
LevSel == IF "PROP_LEVELS" \in DOMAIN IOEnv /\ IOEnv.PROP_LEVELS = "all"
          THEN 1..19 ELSE {1, 4, 8, 9, 11, 12, 13, 14, 19}
Emit(c) == PrintT("CASE " \o ToJson(c))

LevelDecs == <<"0.001", "0.01", "0.05", "0.1", "0.2", "0.25", "0.3", "0.5", "0.75", "0.8", "0.9", "0.95",
               "0.975", "0.99", "0.995", "0.998", "0.999", "0.9995", "0.9999">>
CKinds == <<"two", "upper", "lower">>
Conf(ki, li) == [kind |-> CKinds[ki], level |-> [dec |-> LevelDecs[li]]]
FrontEnds == <<"ci", "ci_wilson_ratio", "ci_true", "ci_if", "stats_new", "stats_from_iter",
               "stats_extend", "stats_extend_if", "stats_add", "stats_mixed", "stats_collect_filtered">>

\* sampled large populations with k drawn by TLC (seeded)
BigNs == <<1000, 9999, 65536, 250000, 1000003, 10000000>>
RandK(n) == RandomElement(0..n)

\* rowstart: first event of a (n, level, method, kind) row; first: start of an independent unit
\* (the three kinds of one (n, level, method) are validated together: mirror symmetry)
Case(fe, n, k, ki, li, rowstart, first) ==
    [op |-> "prop.ci", fe |-> fe, n |-> n, k |-> k, conf |-> Conf(ki, li), li |-> li,
     grp |-> Grp, rowstart |-> rowstart, first |-> first]

VARIABLE done
Init == done = FALSE

RowPart(d) ==
  /\ \A n \in 0..NMax : \A li \in LevSel : \A m \in 1..2 : \A ki \in 1..3 :
        \A k \in 0..(n + 1) :
           /\ Emit(Case(IF m = 1 THEN "ci_wilson" ELSE "ci_z_normal", n, k, ki, li, k = 0, k = 0 /\ ki = 1)
                   @@ [method |-> IF m = 1 THEN "wilson" ELSE "wald"])
           \* (the empty sample too: its counts (0, 0) imply TooFewSuccesses whatever the front-end; the ratio form has no ratio there)
           /\ (m = 1 /\ li = 12 /\ k <= n) => \A f \in DOMAIN FrontEnds : (n > 0 \/ f # 2) =>
                 Emit(Case(FrontEnds[f], n, k, ki, li, FALSE, FALSE) @@ [method |-> "wilson"])
  \* large populations: a sparse row in ascending k (2, 10, a drawn k and its mirror, n/2, n-10, n-2), so that
  \* mirror symmetry is checked there as well
  /\ \A i \in 1..NBig : \A li \in LevSel : \A m \in 1..2 :
        LET n == BigNs[i]
            r == 11 + ((i * 7919 + li * 104729) % ((n \div 2) - 20))
            ks == <<2, 10, r, n \div 2, n - r, n - 10, n - 2>> IN
        \A ki \in 1..3 : \A j \in 1..7 :
           /\ Emit(Case(IF m = 1 THEN "ci_wilson" ELSE "ci_z_normal", n, ks[j], ki, li, j = 1, j = 1 /\ ki = 1)
                   @@ [method |-> IF m = 1 THEN "wilson" ELSE "wald"])
           \* the documented alias and the Stats path at large populations too (count-based front-ends
           \* everywhere, the iterating ones up to 65 536 at one level)
           /\ (m = 1) => \A f \in {1, 5, 9} : Emit(Case(FrontEnds[f], n, ks[j], ki, li, FALSE, FALSE) @@ [method |-> "wilson"])
           /\ (m = 1 /\ li = 12 /\ n <= 65536) => \A f \in {2, 3, 4, 6, 7, 8, 10, 11} :
                 Emit(Case(FrontEnds[f], n, ks[j], ki, li, FALSE, FALSE) @@ [method |-> "wilson"])

\* populations beyond 2^32 (n = a 2^p), successes b 2^q between 10 and n - 10; count-based entry points only
BigPops == << [a |-> 1, p |-> 33], [a |-> 5, p |-> 31], [a |-> 3, p |-> 40] >>
BigKs(nb) == << [a |-> nb.a, p |-> nb.p - 1], [a |-> 3 * nb.a, p |-> nb.p - 2], [a |-> 17, p |-> 0], [a |-> 5, p |-> 20] >>
BigPopPart(d) ==
  \A i \in DOMAIN BigPops : \A j \in 1..4 : \A li \in {4, 8, 12, 14, 19} : \A ki \in 1..3 :
     LET nb == BigPops[i]  kb == BigKs(nb)[j]
         c(fe) == [op |-> "prop.big", fe |-> fe, nbig |-> nb, kbig |-> kb, conf |-> Conf(ki, li), li |-> li,
                   grp |-> Grp, rowstart |-> TRUE, first |-> TRUE, method |-> IF fe = "ci_z_normal" THEN "wald" ELSE "wilson"] IN
     /\ Emit(c("ci_z_normal"))
     /\ Emit(c("ci_wilson"))
     /\ Emit(c("ci"))
     /\ Emit(c("stats_new"))
     \* very few failures in a huge population (k = n - m)
     /\ (j = 1) => \A m \in {2, 17, 60} :
           /\ Emit(c("ci_wilson") @@ [kminus |-> m])
           /\ Emit(c("ci") @@ [kminus |-> m])
           /\ Emit(c("stats_new") @@ [kminus |-> m])
     \* populations beyond 2^53 (n = 2^53 + r: odd ones have no f64) at the edge of the domain: k = n - m and k = m for
     \* m = 0..3 - the domain is that of the INTEGER counts
     /\ (i = 1 /\ j = 1 /\ li = 12) => \A r \in {0, 1, 3} : \A m \in 0..3 : \A side \in {1, 2} :
           LET e(fe) == [c(fe) EXCEPT !.nbig = [a |-> 1, p |-> 53], !.kbig = [a |-> m, p |-> 0]] @@ [nplus |-> r]
                        @@ (IF side = 1 THEN [kminus |-> m] ELSE <<>>) IN
           /\ Emit(e("ci_wilson"))
           /\ Emit(e("ci"))
           /\ Emit(e("stats_new"))

\* confidence levels far outside the grid (two-sided 1 - 10^-6 .. 1 - 10^-11, one-sided also 10^-7 and 10^-9)
\* (the rows of spec/tables/zqx.ndjson, same order; the tiny levels are used one-sided only: next to the median nothing is tabulated)
XLevelDecs == <<"0.999999", "0.9999999", "0.99999999", "0.999999999", "0.99999999999", "0.0000001", "0.000000001">>
XLevelDec(xi) == XLevelDecs[xi]
XLevelPart(d) ==
  \A xi \in DOMAIN XLevelDecs : \A ki \in 1..3 : (xi <= 5 \/ ki # 1) =>
     \A nk \in { <<60, 30>>, <<400, 37>>, <<1000, 500>>, <<100000, 300>>, <<1000000, 999000>> } :
        LET c(fe) == [op |-> "prop.xlev", fe |-> fe, n |-> nk[1], k |-> nk[2], xi |-> xi, li |-> 0,
                      conf |-> [kind |-> CKinds[ki], level |-> [dec |-> XLevelDec(xi)]],
                      grp |-> Grp, rowstart |-> TRUE, first |-> TRUE, method |-> IF fe = "ci_z_normal" THEN "wald" ELSE "wilson"] IN
        /\ Emit(c("ci_z_normal"))
        /\ Emit(c("ci_wilson"))       \* the reference of the front-ends that follow
        /\ Emit(c("ci"))
        /\ Emit(c("stats_new"))

\* the edge of the documented domain for EVERY population up to PROP_EDGE (2, resp. 10, successes or failures exactly, and one
\* less), one confidence per population: the domain is a statement about the integer counts, whatever n
EdgeMax == EnvInt("PROP_EDGE", 2000)
EdgePart(d) ==
  \A n \in 41..EdgeMax :
     LET ki == 1 + (n % 3)  li == IF n % 2 = 0 THEN 12 ELSE 9
         c(fe, k) == Case(fe, n, k, ki, li, TRUE, TRUE) @@ [method |-> IF fe = "ci_z_normal" THEN "wald" ELSE "wilson"] IN
     /\ \A k \in {1, 2, n - 2, n - 1} : Emit(c("ci_wilson", k))
     /\ \A k \in {9, 10, n - 10, n - 9} : Emit(c("ci_z_normal", k))
     /\ Emit(c("ci_wilson", 2)) /\ Emit(c("ci", 2)) /\ Emit(c("stats_new", 2))
     /\ Emit(c("ci_wilson", n - 2)) /\ Emit(c("ci", n - 2)) /\ Emit(c("stats_new", n - 2))

\* every k of a few populations through the count-based and ratio-based entry points (the coverage of C12 is that of ci_wilson
\* only if they all return its interval)
FrontsPart(d) ==
  \A n \in {100, 400, 1000} : \A li \in {5, 10, 12} : \A ki \in 1..3 : \A k \in 0..n : (li # 5 \/ n = 100) =>
     /\ Emit(Case("ci_wilson", n, k, ki, li, k = 0, k = 0 /\ ki = 1) @@ [method |-> "wilson"])
     /\ \A f \in {1, 2, 5, 11} : Emit(Case(FrontEnds[f], n, k, ki, li, FALSE, FALSE) @@ [method |-> "wilson"])

\* the ratio form with rates j / 8 whose product with n is an exact tie k + 1/2, and rates that are not of the form k / n
RatioTiePart(d) ==
  \A n \in {4, 12, 20, 44, 100} : \A j \in 1..7 : \A li \in {8, 12} : \A ki \in 1..3 :
     LET k == ((j * n) + 4) \div 8 IN                                     \* round half up = away from zero (positive)
     /\ Emit(Case("ci_wilson", n, k, ki, li, TRUE, TRUE) @@ [method |-> "wilson"])
     /\ Emit(Case("ci_wilson_ratio_raw", n, k, ki, li, FALSE, FALSE) @@ [method |-> "wilson", ratio |-> [n |-> j, p |-> -3],
                tie |-> ((j * n) % 8 = 4)])

Mults == <<1, 2, 3, 10, 100>>
MultPart(d) ==
  \A n \in 4..NMax : \A k \in 2..(n - 2) : (k * 7 + n) % 3 = 0 =>
     \A li \in {8, 12, 19} : \A ki \in 1..3 : \A m \in 1..2 : \A j \in DOMAIN Mults :
        (m = 1 \/ (k >= 10 /\ n - k >= 10)) =>
        Emit(Case(IF m = 1 THEN "ci_wilson" ELSE "ci_z_normal", Mults[j] * n, Mults[j] * k, ki, li, j = 1, j = 1)
             @@ [method |-> IF m = 1 THEN "wilson" ELSE "wald", mult |-> Mults[j]])

LevelsPart(d) ==
  \A n \in 4..NMax : \A k \in 2..(n - 2) : (k * 5 + n) % 4 = 0 =>
     \A ki \in 1..3 : \A m \in 1..2 : (m = 1 \/ (k >= 10 /\ n - k >= 10)) =>
        \A li \in 1..19 :
           Emit(Case(IF m = 1 THEN "ci_wilson" ELSE "ci_z_normal", n, k, ki, li, li = 1, li = 1)
                @@ [method |-> IF m = 1 THEN "wilson" ELSE "wald"])

Next == /\ ~done
        /\ done' = TRUE
        /\ CASE Grp = "row" -> (RowPart(done) /\ BigPopPart(done) /\ RatioTiePart(done) /\ XLevelPart(done)) [] Grp = "big" -> (BigPopPart(done) /\ XLevelPart(done)) [] Grp = "fronts" -> FrontsPart(done) [] Grp = "edge" -> EdgePart(done) [] Grp = "mult" -> MultPart(done) [] Grp = "levels" -> LevelsPart(done)
Spec == Init /\ [][Next]_done
=============================================================================
