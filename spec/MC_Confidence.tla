---------------------------- MODULE MC_Confidence ----------------------------
(***************************************************************************)
(* Model-level check of the Confidence algebra over a chain of level       *)
(* classes: positions 0 and TOP stand for the levels 0 and 1, NAN for NaN, *)
(* -1 / TOP+1 for values outside [0,1] (incl. infinities).  The client     *)
(* session holds two confidences; every constructor outcome and every law  *)
(* of property C18 is an invariant.                                        *)
(***************************************************************************)
EXTENDS Integers, TLC
TOP == 4
NAN == 99
Levels == (-1..(TOP + 1)) \cup {NAN}
MValid(l) == l # NAN /\ 0 < l /\ l < TOP
MCmp(a, b) == IF a = NAN \/ b = NAN THEN "none" ELSE IF a < b THEN "lt" ELSE IF a > b THEN "gt" ELSE "eq"
C == INSTANCE Confidence WITH Valid <- MValid, LCmp <- MCmp

VARIABLES c, d, out
vars == <<c, d, out>>
Init == c = C!Conf("two", 1) /\ d = C!Conf("two", 1) /\ out = [tag |-> "none"]
Make == \E p \in C!Paths, l \in Levels :
           LET o == C!MakeOutcome(p, l) IN
             /\ out' = o
             /\ \/ (o.tag = "ok" /\ c' = o.conf /\ d' = d)
                \/ (o.tag = "ok" /\ d' = o.conf /\ c' = c)
                \/ (o.tag # "ok" /\ UNCHANGED <<c, d>>)
Flip == c' = C!Flipped(c) /\ UNCHANGED <<d, out>>
Next == Make \/ Flip
Spec == Init /\ [][Next]_vars

\* valid by construction: no reachable Confidence has a level outside (0,1)
ValidByConstruction == MValid(c.level) /\ MValid(d.level)
Laws ==
    /\ C!Flipped(C!Flipped(c)) = c
    /\ C!Flipped(c).level = c.level
    /\ (c.kind = "two") = (C!Flipped(c) = c)
    /\ (c.kind = "upper") = (C!Flipped(c).kind = "lower")
    /\ (C!CCmp(c, d) # "none") = (c.kind = d.kind)
    /\ (C!CCmp(c, d) = "eq") = C!CEq(c, d)
    /\ C!CEq(c, d) = (c = d)
    /\ (C!CCmp(c, d) = "lt") = (C!CCmp(d, c) = "gt")
OutcomeLaws ==
    /\ out.tag = "ok" => MValid(out.conf.level)
=============================================================================
