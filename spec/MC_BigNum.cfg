SPECIFICATION Spec
INVARIANTS
  OverrideIsDef
  Laws
CHECK_DEADLOCK FALSE
