------------------------------ MODULE Gen_Kahan ------------------------------
(***************************************************************************)
(* Case generator for compensated summation (C08).                         *)
(*  PART=bfs     : breadth-first enumeration of EVERY program of KAHAN_LEN *)
(*                 steps of the register machine of MC_Kahan (add a value  *)
(*                 of the adversarial alphabet to register 1 or 2, merge   *)
(*                 2 into 1 by register or by `+`), for f32 and f64        *)
(*  PART=streams : long streams as block / cycle descriptors: constant     *)
(*                 small increments over a sum above 2^24, cancelling      *)
(*                 cycles, mixed magnitudes, merge trees of 16 registers   *)
(*                 with non-zero compensation; the same streams through    *)
(*                 Arithmetic (sum and sum of squares)                     *)
(***************************************************************************)
EXTENDS Integers, Sequences, TLC, Json, IOUtils

EnvInt(name, default) == IF name \in DOMAIN IOEnv THEN atoi(IOEnv[name]) ELSE default
Part == IF "PART" \in DOMAIN IOEnv THEN IOEnv.PART ELSE "bfs"
Thorough == IF "TIER" \in DOMAIN IOEnv THEN IOEnv.TIER = "thorough" ELSE FALSE
KL == EnvInt("KAHAN_LEN", 3)
Emit(c) == PrintT("CASE " \o ToJson(c))
V(n, p) == [n |-> n, p |-> p]
\* f32-representable values: odd multiples handled by the exponent
Alphabet == {V(1, 0), V(-1, 0), V(3, 0), V(-3, 0), V(16777215, 0), V(-16777215, 0), V(8388609, 1), V(-8388609, 1),
             V(8388609, 2), V(-8388609, 2), V(1, 29), V(0, 0)}

Acts == {[a |-> "add", r |-> r, x |-> x] : r \in {1, 2}, x \in Alphabet}
        \cup {[a |-> "merge", r |-> 1, q |-> 2], [a |-> "merge_by_plus", r |-> 1, q |-> 2, t |-> 1]}

VARIABLES prog
Init == prog = <<>>
BfsNext == /\ Part = "bfs"
           /\ Len(prog) < KL
           /\ \E act \in Acts : prog' = Append(prog, act)
           /\ (Len(prog') = KL) =>
                 /\ Emit([op |-> "kahan.program", ty |-> "f32", nreg |-> 2, steps |-> prog'])
                 /\ Emit([op |-> "kahan.program", ty |-> "f64", nreg |-> 2, steps |-> prog'])

\* ---- streams ----------------------------------------------------------------------------------
Rep == IF Thorough THEN 10000000 ELSE 1000000
Rep64 == IF Thorough THEN 1000000 ELSE 100000
Streams(ty, rep) == <<
   \* constant small increment over a sum above 2^24 (naive f32 summation stalls)
   << [a |-> "from", r |-> 1, x |-> V(1, 24)], [a |-> "add_block", r |-> 1, x |-> V(3, 0), rep |-> rep] >>,
   \* the constant of the crate's own test, as a dyadic: 1.1 ~ 9227469 * 2^-23
   << [a |-> "add_block", r |-> 1, x |-> V(9227469, -23), rep |-> rep] >>,
   \* cancelling cycle with a small residue
   << [a |-> "add_cycle", r |-> 1, xs |-> <<V(1, 20), V(3, 0), V(-1, 20), V(1, -4)>>, rep |-> rep \div 4] >>,
   \* mixed magnitudes and signs
   << [a |-> "add_cycle", r |-> 1, xs |-> <<V(5, -3), V(-7, 10), V(1001, 0), V(7, 10), V(-3, -6)>>, rep |-> rep \div 5] >>,
   \* alternating signs: exact sum 0, large sum |x|
   << [a |-> "add_cycle", r |-> 1, xs |-> <<V(12345, 0), V(-12345, 0)>>, rep |-> rep \div 2],
      [a |-> "add", r |-> 1, x |-> V(1, -10)] >> >>
\* merge tree of 16 registers, each with non-zero compensation, pairwise (balanced) then a left fold
TreeProg(rep) ==
    LET fill == [i \in 1..16 |-> <<[a |-> "from", r |-> i, x |-> V(1, 24)],
                                   [a |-> "add_block", r |-> i, x |-> V(2 * i + 1, 0), rep |-> rep \div 64]>>]
        RECURSIVE Cat(_)
        Cat(i) == IF i > 16 THEN <<>> ELSE fill[i] \o Cat(i + 1)
        lvl(s) == [j \in 1..(16 \div (2 * s)) |-> [a |-> "merge", r |-> 2 * s * (j - 1) + 1, q |-> 2 * s * (j - 1) + 1 + s]]
    IN Cat(1) \o lvl(1) \o lvl(2) \o lvl(4) \o lvl(8)
FoldProg(rep) ==
    LET fill == [i \in 1..8 |-> <<[a |-> "add_cycle", r |-> i, xs |-> <<V(1, 24), V(3, 0), V(-5, 0)>>, rep |-> rep \div 64]>>]
        RECURSIVE Cat(_)
        Cat(i) == IF i > 8 THEN <<>> ELSE fill[i] \o Cat(i + 1)
    IN Cat(1) \o [j \in 1..7 |-> [a |-> "merge_by_plus", r |-> 1, q |-> j + 1, t |-> 1]]

StreamNext ==
    /\ Part = "streams"
    /\ prog = <<>>
    /\ prog' = <<"done">>
    /\ \A i \in 1..5 :
         /\ Emit([op |-> "kahan.program", ty |-> "f32", nreg |-> 1, steps |-> Streams("f32", Rep)[i]])
         /\ Emit([op |-> "kahan.program", ty |-> "f64", nreg |-> 1, steps |-> Streams("f64", Rep64)[i]])
    /\ Emit([op |-> "kahan.program", ty |-> "f32", nreg |-> 16, steps |-> TreeProg(Rep)])
    /\ Emit([op |-> "kahan.program", ty |-> "f64", nreg |-> 16, steps |-> TreeProg(Rep64)])
    /\ Emit([op |-> "kahan.program", ty |-> "f32", nreg |-> 8, steps |-> FoldProg(Rep)])
    \* long folds of small partial registers with inexact partial sums: the accumulator as the left
    \* (lfold) and as the right (rfold) operand of the merge - any merge order must keep the bound
    \* the same with the by-value operator `+`, and with negative sums
    /\ \A ty \in {"f32", "f64"} : \A dir \in {"lfold_plus", "rfold_plus", "lfold", "rfold"} :
         /\ Emit([op |-> "kahan.program", ty |-> ty, nreg |-> 1,
                  steps |-> << [a |-> dir, r |-> 1, xs |-> <<V(-13421773, -27), V(-13421773, -27)>>, rep |-> (IF Thorough THEN 1000000 ELSE 100000)] >>])
         /\ (dir \in {"lfold_plus", "rfold_plus"}) =>
               Emit([op |-> "kahan.program", ty |-> ty, nreg |-> 1,
                     steps |-> << [a |-> dir, r |-> 1, xs |-> <<V(13421773, -27), V(13421773, -27), V(13421773, -27)>>, rep |-> (IF Thorough THEN 1000000 ELSE 100000)] >>])
    \* tiny but normal magnitudes (the error term of one addition is then subnormal), negative streams
    /\ Emit([op |-> "kahan.program", ty |-> "f32", nreg |-> 1,
             steps |-> << [a |-> "add_block", r |-> 1, x |-> V(9227469, -146), rep |-> Rep] >>])
    /\ Emit([op |-> "kahan.program", ty |-> "f64", nreg |-> 1,
             steps |-> << [a |-> "add_block", r |-> 1, x |-> V(9227469, -1040), rep |-> Rep64] >>])
    /\ Emit([op |-> "kahan.program", ty |-> "f32", nreg |-> 1,
             steps |-> << [a |-> "add_block", r |-> 1, x |-> V(-9227469, -23), rep |-> Rep] >>])
    /\ Emit([op |-> "kahan.program", ty |-> "f32", nreg |-> 1,
             steps |-> << [a |-> "add_cycle", r |-> 1, xs |-> <<V(-5, -3), V(-1001, 0), V(3, -6)>>, rep |-> Rep \div 3] >>])
    /\ \A ty \in {"f32", "f64"} : \A dir \in {"lfold", "rfold"} : \A m \in {1000, IF Thorough THEN 1000000 ELSE 100000} :
         /\ Emit([op |-> "kahan.program", ty |-> ty, nreg |-> 1,
                  steps |-> << [a |-> dir, r |-> 1, xs |-> <<V(13421773, -27), V(13421773, -27), V(13421773, -27)>>, rep |-> m] >>])
         /\ Emit([op |-> "kahan.program", ty |-> ty, nreg |-> 1,
                  steps |-> << [a |-> "from", r |-> 1, x |-> V(1, 24)],
                              [a |-> dir, r |-> 1, xs |-> <<V(3, 0), V(-1, 0), V(5, -2)>>, rep |-> m] >>])
    \* many registers far below half an ulp of the running sum merged into it, from either side: the
    \* compensation has to carry them (f32: 2^30 + m * 3.25, f64: 2^60 + m * 3.25)
    /\ \A dir \in {"lfold", "rfold", "lfold_plus", "rfold_plus"} : \A m \in {1000, IF Thorough THEN 1000000 ELSE 100000} :
         /\ Emit([op |-> "kahan.program", ty |-> "f32", nreg |-> 1,
                  steps |-> << [a |-> "from", r |-> 1, x |-> V(1, 30)],
                              [a |-> dir, r |-> 1, xs |-> <<V(3, 0), V(-1, 0), V(5, -2)>>, rep |-> m] >>])
         /\ Emit([op |-> "kahan.program", ty |-> "f64", nreg |-> 1,
                  steps |-> << [a |-> "from", r |-> 1, x |-> V(-1, 60)],
                              [a |-> dir, r |-> 1, xs |-> <<V(-3, 0), V(1, 0), V(-5, -2)>>, rep |-> m] >>])
    \* the statistics built on the compensated sums, fed at once and as long merge histories
    /\ \A ty \in {"f32", "f64"} : \A sty \in {"lfold1", "rfold1", "rfold1_assign", "rfold7", "tree", "extend4"} :
         LET n == IF ty = "f32" THEN Rep ELSE Rep64 IN
         Emit([op |-> "mean.ci", fl |-> "arith", ty |-> ty, style |-> sty, li |-> 12,
               conf |-> [kind |-> "two", level |-> [dec |-> "0.95"]], first |-> TRUE, role |-> "stream",
               data |-> [rle |-> << <<V(1, 24), 1>>, <<V(8724152, -26), n \div 2>>, <<V(-1, -3), n \div 4>>, <<V(1025, -13), n \div 4>> >>, order |-> "interleave"]])
    \* partial states whose sum is exactly zero (+x, -x) are not empty states
    /\ \A ty \in {"f32", "f64"} : \A sty \in {"rfold7", "lfold7", "tree"} :
         Emit([op |-> "mean.ci", fl |-> "arith", ty |-> ty, style |-> sty, li |-> 12,
               conf |-> [kind |-> "two", level |-> [dec |-> "0.95"]], first |-> TRUE, role |-> "stream",
               data |-> [rle |-> << <<V(13421773, -27), 5000>>, <<V(-13421773, -27), 5000>> >>, order |-> "interleave"]])
    /\ \A ty \in {"f32", "f64"} : \A o \in {"asc", "interleave"} :
         LET n == IF ty = "f32" THEN Rep ELSE Rep64 IN
         Emit([op |-> "mean.ci", fl |-> "arith", ty |-> ty, style |-> "extend", li |-> 12,
               conf |-> [kind |-> "two", level |-> [dec |-> "0.95"]], first |-> TRUE, role |-> "stream",
               data |-> [rle |-> << <<V(1, 24), 1>>, <<V(3, 0), n \div 2>>, <<V(-1, 0), n \div 4>>, <<V(1025, -3), n \div 4>> >>, order |-> o]])

Next == BfsNext \/ StreamNext
Spec == Init /\ [][Next]_prog
=============================================================================
