---------------------------- MODULE Trace_Totality ----------------------------
(***************************************************************************)
(* Trace validation for C11: every recorded outcome must be in the set the *)
(* decision table of module Totality allows for the class of its input;    *)
(* a panic is accepted only where the property documents one; an Ok never  *)
(* carries a NaN bound or low > high.                                      *)
(***************************************************************************)
EXTENDS Totality, Float, Json, IOUtils, TLC

Rec == ndJsonDeserialize(IOEnv.TRACE)

RECURSIVE Expand(_)
Expand(rle) == IF rle = <<>> THEN <<>>
               ELSE [i \in 1..rle[1][2] |-> rle[1][1]] \o Expand(Tail(rle))

\* an Ok float interval is sane: no NaN bound, low <= high
SaneF(iv) == CASE iv.kind = "two"   -> ~IsNaN(iv.lo) /\ ~IsNaN(iv.hi) /\ FLe(iv.lo, iv.hi)
               [] iv.kind = "upper" -> ~IsNaN(iv.lo)
               [] iv.kind = "lower" -> ~IsNaN(iv.hi)
KindMatches(iv, conf) == iv.kind = conf.kind
In01(iv) == /\ (iv.kind # "lower" => FLe(iv.lo, [tag |-> "fin", s |-> 0, e |-> 0, m |-> <<1>>]) /\ FSign(iv.lo) >= 0)
            /\ (iv.kind # "upper" => FLe(iv.hi, [tag |-> "fin", s |-> 0, e |-> 0, m |-> <<1>>]) /\ FSign(iv.hi) >= 0)
\* the point estimate lies in the interval (used for harmonic means, two-sided or level >= 1/2)
HalfOrMore(conf) == DyLe(Dy(BigOfInt(1), -1), FDy(conf.level))
ContainsF(iv, x) == /\ (iv.kind # "lower" => FLe(iv.lo, x))
                    /\ (iv.kind # "upper" => FLe(x, iv.hi))

JudgeAllowed(out, allowed) ==
    CASE out.tag = "panic" -> {"C11.no_panic"}
      [] out.tag = "ok"    -> {c \in {"C11.ok_allowed"} : ~allowed.ok}
      [] out.tag = "err"   -> {c \in {"C11.err_variant"} : ~(out.variant \in allowed.errs \/ "*" \in allowed.errs)}
      [] OTHER -> {"C11.outcome_shape"}

Failed(e) ==
  CASE e.op = "mean.ci" ->
         LET xs0 == Expand(e.data.rle)
             ys0 == IF "datab" \in DOMAIN e THEN Expand(e.datab.rle) ELSE <<>>
             \* the tuple-level feeders of Paired cannot express a length mismatch: the harness zips
             zipped == e.fl = "paired" /\ e.style \in {"extend_tuple", "append_pair"}
             m == IF Len(xs0) < Len(ys0) THEN Len(xs0) ELSE Len(ys0)
             xs == IF zipped THEN SubSeq(xs0, 1, m) ELSE xs0
             ys == IF zipped THEN SubSeq(ys0, 1, m) ELSE ys0
             al == AllowedFor(e.fl, xs, ys)
             \* harmonic means: the reciprocal-space interval may reach 0; then an error is allowed
             al2 == IF e.fl = "harm" /\ al.ok THEN [ok |-> TRUE, errs |-> {"*"}] ELSE al
         IN JudgeAllowed(e.out, al2)
            \cup {c \in {"C11.ok_sane"} : e.out.tag = "ok" /\ ~SaneF(e.out.iv)}
            \cup {c \in {"C11.ok_kind"} : e.out.tag = "ok" /\ ~KindMatches(e.out.iv, e.confv)}
            \cup {c \in {"C11.harmonic_contains_estimate"} :
                    /\ e.fl = "harm" /\ e.out.tag = "ok" /\ SaneF(e.out.iv)
                    /\ (e.confv.kind = "two" \/ HalfOrMore(e.confv))
                    /\ e.stats.mean.tag = "fin"
                    /\ ~ContainsF(e.out.iv, e.stats.mean)}
    [] e.op = "prop.ci" ->
         IF e.fe = "ci_wilson_ratio_raw"
         THEN (IF e.out.tag = "panic" THEN {"C11.no_panic"}
               ELSE IF e.out.tag = "ok" THEN {c \in {"C11.ok_sane"} : ~SaneF(e.out.iv)}
                    \cup (IF e.ratio = [n |-> 3, p |-> -1] THEN {"C11.ok_allowed"} ELSE {"C11.ok_allowed"} \ {"C11.ok_allowed"})
               ELSE {})
         ELSE
         LET d == PropDomain(IF e.fe = "ci_z_normal" THEN "wald" ELSE "wilson", e.n, e.k) IN
         (IF e.out.tag = "panic" THEN {"C11.no_panic"}
          ELSE IF e.out.tag = "ok" THEN {c \in {"C11.ok_allowed"} : d # "ok"}
                                        \cup {c \in {"C11.ok_sane"} : ~(SaneF(e.out.iv) /\ (e.fe = "ci_z_normal" \/ In01(e.out.iv)))}   \* Wald bounds outside [0,1]: C17's business
                                        \cup {c \in {"C11.ok_kind"} : FALSE}
          ELSE {c \in {"C11.err_variant"} : e.out.variant # d})
    [] e.op = "prop.sig" ->
         {c \in {"C11.no_panic"} : e.out.tag # "ok"}
         \cup {c \in {"C11.is_significant"} : e.out.tag = "ok" /\ e.out.res # IsSignificant(e.n, e.k)}
         \cup {c \in {"C11.is_significant"} : e.out_stats.tag = "ok" /\ e.out_stats.res # IsSignificant(e.n, e.k)}
         \cup {c \in {"C11.no_panic"} : e.out_stats.tag = "panic"}
    [] e.op = "prop.stats_new" ->
         \* documented panic iff successes > population
         {c \in {"C11.documented_panic"} : (e.k > e.n) # (e.out.tag = "panic")}
         \cup {c \in {"C11.stats_new"} : e.out.tag = "ok" /\ (e.out.pop # e.n \/ e.out.succ # e.k)}
    [] e.op = "quant.ranks" ->
         LET d == IF e.qb = 0 THEN {"*"} ELSE QuantDomain(e.n, e.qa, e.qb)
             J(o) == CASE o.tag = "panic" -> {"C11.no_panic"}
                       [] o.tag = "ok" -> {c \in {"C11.ok_allowed"} : "ok" \notin d}
                                          \cup {c \in {"C11.ok_sane"} :
                                                  \/ (o.iv.kind = "two" /\ ~(o.iv.lo <= o.iv.hi /\ o.iv.hi < e.n))
                                                  \/ (o.iv.kind = "upper" /\ ~(o.iv.lo < e.n))
                                                  \/ (o.iv.kind = "lower" /\ ~(o.iv.hi < e.n))}
                                          \cup {c \in {"C11.ok_kind"} : o.iv.kind # e.confv.kind}
                       [] o.tag = "err" -> {c \in {"C11.err_variant"} : ~(o.variant \in d \/ "*" \in d)}
         IN J(e.out) \cup J(e.out_stats)
    [] e.op = "quant.data" ->
         IF e.entry = "sorted_raw"
         THEN (IF e.out.tag = "panic" THEN {"C11.no_panic"}
               ELSE IF e.out.tag # "ok" THEN {}
               ELSE {c \in {"C11.ok_sane"} : e.out.iv.kind = "two" /\ ~(e.out.iv.lo <= e.out.iv.hi)})
         ELSE IF e.ty = "f64nan" \/ e.entry = "max_small"
         THEN \* documented panics (incomparable elements, capacity overflow): any outcome but a bad Ok
              \* (a NaN bound is reported by the harness as the key -999)
              LET o == e.out IN
              IF o.tag # "ok" THEN {}
              ELSE {c \in {"C11.ok_nan_bound"} : (o.iv.kind # "lower" /\ o.iv.lo = -999) \/ (o.iv.kind # "upper" /\ o.iv.hi = -999)}
                   \cup {c \in {"C11.ok_sane"} : o.iv.kind = "two" /\ ~(o.iv.lo <= o.iv.hi)}
         ELSE LET d == QuantDomain(e.n, e.qa, e.qb)  o == e.out IN
              CASE o.tag = "panic" -> {"C11.no_panic"}
                [] o.tag = "ok" -> {c \in {"C11.ok_allowed"} : "ok" \notin d}
                                   \cup {c \in {"C11.ok_sane"} : o.iv.kind = "two" /\ ~(o.iv.lo <= o.iv.hi)}
                                   \cup {c \in {"C11.ok_kind"} : o.iv.kind # e.confv.kind}
                [] o.tag = "err" -> {c \in {"C11.err_variant"} : o.variant \notin d}

Clauses(e) ==
  CASE e.op = "mean.ci" ->
         LET xs == Expand(e.data.rle)
             ys == IF "datab" \in DOMAIN e THEN Expand(e.datab.rle) ELSE <<>>
             al == AllowedFor(e.fl, xs, ys) IN
         {"C11.no_panic", "C11.mean." \o e.fl}
         \cup (IF al.ok THEN {"C11.ok_allowed", "C11.ok_sane", "C11.ok_kind"} ELSE {"C11.err_variant"})
         \cup {"C11.class." \o x : x \in (IF al.ok THEN {} ELSE al.errs)}
         \cup (IF Len(xs) = 0 THEN {"C11.class.empty"} ELSE IF Len(xs) = 1 THEN {"C11.class.singleton"} ELSE {})
         \cup (IF Len(xs) >= 2 /\ AllSame(xs) THEN {"C11.class.constant"} ELSE {})
         \cup (IF Any(Extreme, xs) THEN {"C11.class.extreme"} ELSE {})
         \cup (IF Any(NonFinite, xs) THEN {"C11.class.nonfinite"} ELSE {})
         \cup (IF e.fl = "harm" /\ e.out.tag = "ok" THEN {"C11.harmonic_contains_estimate"} ELSE {})
    [] e.op = "prop.ci" -> {"C11.no_panic", "C11.prop"}
    [] e.op = "prop.sig" -> {"C11.no_panic", "C11.is_significant"} \cup (IF e.k > e.n THEN {"C11.is_significant_k_gt_n"} ELSE {})
    [] e.op = "prop.stats_new" -> {"C11.documented_panic", "C11.stats_new"}
    [] e.op = "quant.ranks" -> {"C11.no_panic", "C11.quant_ranks"}
    [] e.op = "quant.data" -> {"C11.no_panic", "C11.quant_data"}
                              \cup (IF e.ty = "f64nan" \/ e.entry = "max_small" THEN {"C11.documented_panic_quantile"} ELSE {})
                              \cup (IF e.entry = "sorted_raw" THEN {"C11.unsorted_input_to_sorted_unchecked"} ELSE {})

VARIABLES l, cov, nbad
vars == <<l, cov, nbad>>
Init == l = 1 /\ cov = <<>> /\ nbad = 0
Bump(c, cs) == [x \in DOMAIN c \cup cs |->
                   (IF x \in DOMAIN c THEN c[x] ELSE 0) + (IF x \in cs THEN 1 ELSE 0)]
Next == /\ l <= Len(Rec)
        /\ LET e == Rec[l]  f == Failed(e)  cs == Clauses(e) IN
             /\ (f # {}) => PrintT("BAD " \o ToJson([id |-> e.id, failed |-> f]))
             /\ nbad' = nbad + (IF f = {} THEN 0 ELSE 1)
             /\ cov' = Bump(cov, cs)
        /\ l' = l + 1
Spec == Init /\ [][Next]_vars
Flush == (l = Len(Rec) + 1) =>
            PrintT("COV " \o ToJson([events |-> Len(Rec), bad |-> nbad, cov |-> cov]))
=============================================================================
