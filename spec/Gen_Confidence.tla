---------------------------- MODULE Gen_Confidence ----------------------------
(***************************************************************************)
(* Case generator for Confidence (C18): every construction path x every    *)
(* level class representative; accessors of every valid (kind, level);     *)
(* comparison of every ordered pair.  Thorough tier adds RANDOM_LEVELS      *)
(* pseudo-random 31-bit levels drawn by TLC.                                *)
(***************************************************************************)
EXTENDS Integers, Sequences, TLC, Json, IOUtils

EnvInt(name, default) == IF name \in DOMAIN IOEnv THEN atoi(IOEnv[name]) ELSE default
NRandom == EnvInt("RANDOM_LEVELS", 0)

\* representatives of the level classes, as raw f64 bits
LevelTable == <<
  [name |-> "nan",       bits |-> "7ff8000000000000"],
  [name |-> "-inf",      bits |-> "fff0000000000000"],
  [name |-> "-1",        bits |-> "bff0000000000000"],
  [name |-> "-0.0",      bits |-> "8000000000000000"],
  [name |-> "+0.0",      bits |-> "0000000000000000"],
  [name |-> "min_sub",   bits |-> "0000000000000001"],
  [name |-> "1e-300",    bits |-> "01a56e1fc2f8f359"],
  [name |-> "0.001",     bits |-> "3f50624dd2f1a9fc"],
  [name |-> "0.5",       bits |-> "3fe0000000000000"],
  [name |-> "0.9",       bits |-> "3feccccccccccccd"],
  [name |-> "0.95",      bits |-> "3fee666666666666"],
  [name |-> "0.99",      bits |-> "3fefae147ae147ae"],
  [name |-> "pred(1)",   bits |-> "3fefffffffffffff"],
  [name |-> "1",         bits |-> "3ff0000000000000"],
  [name |-> "succ(1)",   bits |-> "3ff0000000000001"],
  [name |-> "2",         bits |-> "4000000000000000"],
  [name |-> "+inf",      bits |-> "7ff0000000000000"] >>
ValidNames == {"min_sub", "1e-300", "0.001", "0.5", "0.9", "0.95", "0.99", "pred(1)"}
Paths  == {"new", "new_two_sided", "new_upper", "new_lower", "try_from_f64", "try_from_f32"}
CKinds == {"two", "upper", "lower"}

Emit(c) == PrintT("CASE " \o ToJson(c))
Lv(i) == [bits |-> LevelTable[i].bits]
ValidIdx == {i \in DOMAIN LevelTable : LevelTable[i].name \in ValidNames}
RandLevels == [j \in 1..NRandom |-> [n |-> RandomElement(1..2147483646), p |-> -31]]
RL == RandLevels

VARIABLE done
Init == done = FALSE
Next == /\ ~done
        /\ done' = TRUE
        /\ \A i \in DOMAIN LevelTable, p \in Paths :
               Emit([op |-> "conf.make", path |-> p, level |-> Lv(i), cls |-> LevelTable[i].name])
        /\ \A j \in DOMAIN RL, p \in Paths :
               Emit([op |-> "conf.make", path |-> p, level |-> RL[j], cls |-> "random"])
        /\ \A i \in ValidIdx, k \in CKinds :
               Emit([op |-> "conf.observe", c |-> [kind |-> k, level |-> Lv(i)]])
        /\ \A j \in DOMAIN RL, k \in CKinds :
               Emit([op |-> "conf.observe", c |-> [kind |-> k, level |-> RL[j]]])
        /\ \A i \in ValidIdx, j \in ValidIdx, k1 \in CKinds, k2 \in CKinds :
               Emit([op |-> "conf.cmp", c |-> [kind |-> k1, level |-> Lv(i)],
                                       d |-> [kind |-> k2, level |-> Lv(j)]])
        /\ \A j \in DOMAIN RL : j < Len(RL) =>
               \A k1 \in CKinds, k2 \in CKinds :
               Emit([op |-> "conf.cmp", c |-> [kind |-> k1, level |-> RL[j]],
                                       d |-> [kind |-> k2, level |-> RL[j + 1]]])
Spec == Init /\ [][Next]_done
=============================================================================
