SPECIFICATION Spec
CONSTANTS
  B <- G_B
  W <- G_W
  Scalars <- G_Scalars
INVARIANT Flush
CHECK_DEADLOCK FALSE
