----------------------------- MODULE MC_Interval -----------------------------
(***************************************************************************)
(* Model-level check of the interval algebra (design check, no code).      *)
(* State: three registers holding interval values.  Transitions: the       *)
(* client loads any well-formed interval, or replaces a register by the    *)
(* specified result of an arithmetic operation (closure of the algebra).   *)
(* Invariants: every law the properties C07 / C13 / C14 / C15 state,       *)
(* evaluated on the current register contents - so TLC evaluates them on   *)
(* every triple of intervals over the bounded carrier.                     *)
(***************************************************************************)
EXTENDS IntervalSession, IOUtils

EnvInt(name, default) == IF name \in DOMAIN IOEnv THEN atoi(IOEnv[name]) ELSE default
MC_N       == EnvInt("IV_BOX", 2)          \* bounds -N .. N
MC_B       == (-MC_N)..MC_N
MC_Scalars == (-MC_N)..MC_N
MC_W       == (-(MC_N + 2))..(MC_N + 2)      \* every bound plus two outer witnesses on each side

VARIABLES r1, r2, r3
vars == <<r1, r2, r3>>

InBox(iv) == /\ HasLo(iv) => iv.lo \in B
             /\ HasHi(iv) => iv.hi \in B

Init == r1 = Two(0, 0) /\ r2 = Two(0, 0) /\ r3 = Two(0, 0)

Load == \E iv \in I : \/ r1' = iv /\ UNCHANGED <<r2, r3>>
                      \/ r2' = iv /\ UNCHANGED <<r1, r3>>
                      \/ r3' = iv /\ UNCHANGED <<r1, r2>>

Scalar == \E op \in ScalarOps, k \in Scalars :
             /\ ScalarAdmissible(op, r1, k)
             /\ LET res == SpecScalar(op, r1, k).iv IN
                  /\ InBox(res)
                  /\ r1' = res
             /\ UNCHANGED <<r2, r3>>

Binary == \E op \in {"add", "sub"} :
             /\ ~BinPanics(op, r1, r2)
             /\ LET res == BinRef(op, r1, r2) IN
                  /\ InBox(res)
                  /\ r3' = res
             /\ UNCHANGED <<r1, r2>>

Next == Load \/ Scalar \/ Binary

Spec == Init /\ [][Next]_vars

-----------------------------------------------------------------------------
TypeOK == r1 \in I /\ r2 \in I /\ r3 \in I

\* C14: every reachable value is well-formed
AllWellFormed == WellFormed(r1) /\ WellFormed(r2) /\ WellFormed(r3)

\* C07: closed forms = set relations, symmetry
RefIsDef ==
    /\ IntersectsRef(r1, r2) = IntersectsDef(r1, r2, W)
    /\ IncludesRef(r1, r2)   = IncludesDef(r1, r2, W)
    /\ IntersectsRef(r1, r2) = IntersectsRef(r2, r1)
    /\ \A x \in W : RangeContains(RangeBoundOf(r1, "start"), RangeBoundOf(r1, "end"), x)
                      = ContainsDef(r1, x)

\* includes is a partial order compatible with intersects
IncludesLaws ==
    /\ IncludesRef(r1, r1)
    /\ (IncludesRef(r1, r2) /\ IncludesRef(r2, r3)) => IncludesRef(r1, r3)
    /\ (IncludesRef(r1, r2) /\ IncludesRef(r2, r1)) => IvEq(r1, r2)
    /\ IncludesRef(r1, r2) => IntersectsRef(r1, r2)

\* C15: strict partial order consistent with equality
OrderLaws ==
    /\ CmpRef(r1, r2) = CmpDef(r1, r2, W)
    /\ (CmpRef(r1, r2) = "eq") = IvEq(r1, r2)
    /\ (CmpRef(r1, r2) = "lt") = (CmpRef(r2, r1) = "gt")
    /\ CmpRef(r1, r1) = "eq"
    /\ (CmpRef(r1, r2) = "lt" /\ CmpRef(r2, r3) = "lt") => CmpRef(r1, r3) = "lt"
    \* unbounded on the same side => incomparable (unless equal)
    /\ (r1.k = r2.k /\ r1.k # "two" /\ ~IvEq(r1, r2)) => CmpRef(r1, r2) = "none"

\* C13: the reference closed forms are sound, tight, well-formed
ArithLaws ==
    /\ \A op \in ScalarOps, k \in Scalars :
          ScalarAdmissible(op, r1, k) => ScalarOK(op, r1, k, ScalarRef(op, r1, k), W)
    /\ \A op \in {"add", "sub"} :
          ~BinPanics(op, r1, r2) => BinOK(op, r1, r2, BinRef(op, r1, r2), W)

\* The judge accepts the specification's own outcomes (sanity of Judge).
JudgeAcceptsSpec ==
    /\ \A op \in RelOps :
          Failed([op |-> op, a |-> r1, b |-> r2, res |-> SpecRel(op, r1, r2)]) = {}
    /\ Failed([op |-> "iv.cmp", a |-> r1, b |-> r2,
               res |-> [cmp |-> CmpRef(r1, r2), ne |-> CmpRef(r1, r2) # "eq"] @@ OpsOfCmp(CmpRef(r1, r2))]) = {}
    /\ \A op \in ScalarOps, k \in Scalars : ScalarAdmissible(op, r1, k) =>
          Failed([op |-> "iv.scalar", sop |-> op, a |-> r1, k |-> k,
                  out |-> SpecScalar(op, r1, k)]) = {}
    /\ \A op \in {"add", "sub"} :
          Failed([op |-> "iv.binary", bop |-> op, a |-> r1, b |-> r2,
                  out |-> SpecBin(op, r1, r2)]) = {}

=============================================================================
