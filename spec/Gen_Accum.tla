------------------------------ MODULE Gen_Accum ------------------------------
(***************************************************************************)
(* Program generator for the accumulation machines (C09): TLC explores, by *)
(* breadth-first search, EVERY program of ACC_L calls over ACC_R registers *)
(* of flavour ACC_FL (module Accum's actions: new, append, extend,         *)
(* from_iter, clone, +=, +, and the flavour-specific feeders, including    *)
(* rejected values and failing bulk calls) and prints each maximal program *)
(* as one case.  The history variable `prog` is part of the state, so the  *)
(* number of distinct states is the number of distinct programs.           *)
(***************************************************************************)
EXTENDS Accum, IOUtils, Json

EnvInt(name, default) == IF name \in DOMAIN IOEnv THEN atoi(IOEnv[name]) ELSE default
EnvStr(name, default) == IF name \in DOMAIN IOEnv THEN IOEnv[name] ELSE default
Fl  == EnvStr("ACC_FL", "arith")
Ty  == EnvStr("ACC_TY", "f64")
NR  == EnvInt("ACC_R", 2)
R   == 1..NR
L   == EnvInt("ACC_L", 2)
Rich == EnvInt("ACC_RICH", 1) = 1       \* 0: reduced action alphabet (longer programs)
WithRT == EnvInt("ACC_RT", 0) = 1       \* C20: serialization round trips as actions
Big == EnvInt("ACC_BIG", 0) = 1         \* C20: f32 data above 2^24 (non-zero compensation terms)
\* C20: constant samples of a value that is not exactly representable (code 50 + d = d / 10; for the
\* harmonic flavour 10 / d): the accumulated sums round, the computed variance is rounding noise
Frac == EnvInt("ACC_FRAC", 0)
FV   == 50 + Frac

Emit(c) == PrintT("CASE " \o ToJson(c))

Vals == CASE Frac > 0 -> {FV}
          [] Fl = "arith" /\ Big -> {1, 100}
          [] Fl = "arith" -> {1, 3}
          [] Fl = "geo"   -> {2, 3, 0}
          [] Fl = "harm"  -> {1, 3, -2}
          [] Fl = "unpaired" -> {1, 3}
          [] OTHER -> {1}
Chunks == CASE Frac > 0 -> {<<FV, FV>>, <<FV, FV, FV>>, <<FV, FV, FV, FV, FV, FV, FV>>}
            [] Fl = "arith" /\ Big -> {<<100, 1, 1, 1>>, <<1, 100, 3>>}
            [] Fl = "arith" -> {<<>>, <<3, 1>>, <<1, 1, 3>>}
            [] Fl = "geo"   -> {<<>>, <<2, 3>>, <<3, -1, 2>>}
            [] Fl = "harm"  -> {<<>>, <<1, 2>>, <<2, -3, 1>>}
            [] Fl = "unpaired" -> {<<>>, <<3, 1>>, <<1, 1, 3>>}
            [] Fl = "prop"  -> {<<>>, <<1, 0, 1>>, <<0, 0>>}
            [] OTHER -> {<<>>}
PairChunks == {<<<<>>, <<>>>>, <<<<5, 1>>, <<2, 4>>>>, <<<<7, 7, 2>>, <<1, 7, 4>>>>}
BadPairChunks == {<<<<5, 1, 3>>, <<2>>>>, <<<<5>>, <<2, 4, 4>>>>, <<<<>>, <<1>>>>}

Common == {[a |-> "new", r |-> r] : r \in R}
          \cup {x \in {[a |-> "clone", r |-> r, q |-> q] : r \in R, q \in R} : x.r # x.q}
          \cup {[a |-> "add_assign", r |-> r, q |-> q] : r \in R, q \in R}
          \cup {[a |-> "add", r |-> r, q |-> q, t |-> t] : r \in R, q \in R, t \in R}
          \cup (IF WithRT THEN {[a |-> "roundtrip", r |-> r] : r \in R} ELSE {})

Specific ==
  CASE Fl \in {"arith", "geo", "harm"} ->
         {[a |-> "append", r |-> r, v |-> v] : r \in R, v \in Vals}
         \cup {[a |-> "extend", r |-> r, xs |-> xs] : r \in R, xs \in Chunks}
         \cup (IF Rich THEN {[a |-> "from_iter", r |-> r, xs |-> xs] : r \in R, xs \in Chunks} ELSE {})
    [] Fl = "paired" ->
         {[a |-> "append_pair", r |-> r, v |-> p[1], w |-> p[2]] : r \in R, p \in {<<5, 2>>, <<1, 4>>}}
         \cup {[a |-> "extend_tuple", r |-> r, xs |-> pc[1], ys |-> pc[2]] : r \in R, pc \in PairChunks}
         \cup {[a |-> "extend_paired", r |-> r, xs |-> pc[1], ys |-> pc[2]] : r \in R, pc \in PairChunks \cup BadPairChunks}
    [] Fl = "unpaired" ->
         {[a |-> "append_a", r |-> r, v |-> v] : r \in R, v \in Vals}
         \cup {[a |-> "append_b", r |-> r, v |-> v] : r \in R, v \in Vals}
         \cup {[a |-> "append_pair_u", r |-> r, v |-> 3, w |-> 1] : r \in R}
         \cup {[a |-> "via_mut", r |-> r, v |-> 1, w |-> 3] : r \in R}
         \cup {[a |-> "extend_a", r |-> r, xs |-> xs] : r \in R, xs \in Chunks \ {<<>>}}
         \cup {[a |-> "extend_b", r |-> r, xs |-> xs] : r \in R, xs \in Chunks \ {<<>>}}
         \cup (IF Rich THEN
                 {[a |-> "extend_ab", r |-> r, xs |-> <<3, 1>>, ys |-> <<1, 1, 3>>] : r \in R}
                 \cup {[a |-> "from_iter_u", r |-> r, xs |-> <<1, 1, 3>>, ys |-> <<3, 1>>] : r \in R}
                 \cup {[a |-> "new_from", r |-> r, xs |-> <<3, 1>>, ys |-> <<3, 3, 1>>] : r \in R}
               ELSE {})
    [] Fl = "prop" ->
         {[a |-> "add_success", r |-> r] : r \in R}
         \cup {[a |-> "add_failure", r |-> r] : r \in R}
         \cup {[a |-> "extend_bool", r |-> r, xs |-> xs] : r \in R, xs \in Chunks}
         \cup {[a |-> "extend_if", r |-> r, xs |-> xs] : r \in R, xs \in Chunks \ {<<>>}}
         \cup {[a |-> "from_iter_bool", r |-> r, xs |-> <<1, 1, 0, 1>>] : r \in R}
         \cup {[a |-> "new_counts", r |-> r, v |-> c[1], w |-> c[2]] : r \in R, c \in {<<40, 12>>, <<7, 7>>}}
    [] Fl = "quant" ->
         {[a |-> "new_pop", r |-> r, v |-> v] : r \in R, v \in {0, 5, 16}}

Acts == Common \cup Specific

\* ---- merge schedules: every order in which k chunks can be combined pairwise -------------------
Mode == EnvStr("ACC_MODE", "programs")
TreeChunks == CASE Fl = "arith" -> << <<3, 1>>, <<>>, <<1>>, <<1, 3, 3, 1, 1, 1, 3, 1>>, <<3, -3>> >>       \* a non-empty chunk that sums to 0
                [] Fl = "harm" -> << <<1, 2, 2>>, <<>>, <<3>>, <<1, 1, 1, 1, 1, 1, 1, 3>>, <<2, 1>> >>
                [] Fl = "prop" -> << <<1, 0, 1>>, <<>>, <<0>>, <<1, 1, 1, 0, 1, 1, 0, 1>>, <<0, 0>> >>
                [] OTHER -> << <<3, 1>>, <<>>, <<1>>, <<1, 3, 3, 1, 1, 1, 3, 1>>, <<3, 3>> >>
NK == EnvInt("ACC_CHUNKS", 4)
Fill == [i \in 1..NK |-> [a |-> (IF Fl = "prop" THEN "from_iter_bool" ELSE "from_iter"), r |-> i, xs |-> TreeChunks[i]]]
LiveOf(p) == {r \in 1..NK : \A i \in DOMAIN p : ~(p[i].a \in {"add", "add_assign"} /\ p[i].q = r)}

VARIABLES h, prog
vars == <<h, prog>>
Init == h = [r \in R |-> EmptyReg] /\ prog = <<>>
TreeNext ==
    /\ Mode = "trees"
    /\ IF prog = <<>>
       THEN /\ prog' = Fill /\ h' = h
            \* the same chunks through one real parallel reduction (rayon), several chunkings
            /\ \A m \in 1..5 : (Fl \in {"arith", "harm", "geo", "prop"}) =>
                  Emit([op |-> "accum.program", fl |-> Fl, ty |-> Ty, nreg |-> 1, tol |-> (Fl = "geo"),
                        steps |-> << [a |-> "par_reduce", r |-> 1, chunks |-> SubSeq(TreeChunks, 1, m)],
                                     [a |-> "par_reduce", r |-> 1, chunks |-> [i \in 1..(8 * m) |-> TreeChunks[(i % 5) + 1]]] >>])
       ELSE /\ Cardinality(LiveOf(prog)) > 1
            /\ \E r \in LiveOf(prog), q \in LiveOf(prog) : r # q /\
                 \E kind \in {"add", "add_assign"} :
                    /\ prog' = Append(prog, IF kind = "add" THEN [a |-> "add", r |-> r, q |-> q, t |-> r]
                                            ELSE [a |-> "add_assign", r |-> r, q |-> q])
                    /\ h' = h
            /\ (Cardinality(LiveOf(prog')) = 1) =>
                  Emit([op |-> "accum.program", fl |-> Fl, ty |-> Ty, nreg |-> NK, tol |-> (Fl = "geo"), steps |-> prog'])
ProgNext ==
    /\ Mode = "programs"
    /\ Len(prog) < L
    /\ \E act \in Acts :
         /\ h' = Step(Fl, h, act)
         /\ prog' = Append(prog, act)
    /\ (Len(prog') = L) =>
          Emit([op |-> "accum.program", fl |-> Fl, ty |-> Ty, nreg |-> NR, tol |-> (Fl = "geo"), nobatch |-> (Frac > 0), steps |-> prog'])
Next == ProgNext \/ TreeNext
Spec == Init /\ [][Next]_vars
=============================================================================
