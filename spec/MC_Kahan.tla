------------------------------- MODULE MC_Kahan -------------------------------
(***************************************************************************)
(* Model-level check of C08: every sequence of up to KL additions of an    *)
(* adversarial alphabet (cancelling patterns, values straddling 2^24,      *)
(* mixed magnitudes) into two registers, with merges of one register into  *)
(* the other at any time, keeps |value - exact| <= C u sum|x| in every     *)
(* reachable state, with C = 16 independent of the length.                 *)
(***************************************************************************)
EXTENDS Kahan, BigNum, IOUtils, TLC

EnvInt(name, default) == IF name \in DOMAIN IOEnv THEN atoi(IOEnv[name]) ELSE default
KL == EnvInt("KAHAN_LEN", 5)
C  == 16
Alphabet == IF EnvInt("KAHAN_ALPHA", 12) = 12
            THEN {1, -1, 3, -3, 16777215, -16777215, 16777218, -16777218, 33554436, -33554436, 536870912, 0}
            ELSE {1, -3, 16777215, -16777218, 33554436, -33554436, 536870912, 16777218}

VARIABLES r1, r2, exact1, exact2, abs1, abs2, len
vars == <<r1, r2, exact1, exact2, abs1, abs2, len>>
Init == r1 = Reg0 /\ r2 = Reg0 /\ exact1 = 0 /\ exact2 = 0 /\ abs1 = 0 /\ abs2 = 0 /\ len = 0

InRange(x) == Abs(x) <= 1073741824          \* keep the model inside TLC's 32-bit integers
InRangeE(x) == Abs(x) <= 536870912               \* exact sums: half of that, so that guards do not overflow
Add1 == \E x \in Alphabet :
          /\ len < KL /\ InRangeE(exact1) /\ InRangeE(exact1 + x) /\ abs1 < 1000000000 /\ abs1 + Abs(x) < 1000000000
          /\ r1' = KahanAdd(r1, x) /\ exact1' = exact1 + x /\ abs1' = abs1 + Abs(x) /\ len' = len + 1
          /\ UNCHANGED <<r2, exact2, abs2>>
Add2 == \E x \in Alphabet :
          /\ len < KL /\ InRangeE(exact2) /\ InRangeE(exact2 + x) /\ abs2 < 1000000000 /\ abs2 + Abs(x) < 1000000000
          /\ r2' = KahanAdd(r2, x) /\ exact2' = exact2 + x /\ abs2' = abs2 + Abs(x) /\ len' = len + 1
          /\ UNCHANGED <<r1, exact1, abs1>>
MergeInto1 == /\ len > 0 /\ InRangeE(exact1) /\ InRangeE(exact2) /\ InRangeE(exact1 + exact2) /\ abs1 + abs2 < 1000000000
              /\ (r2 # Reg0 \/ exact2 # 0)
              /\ r1' = Merge(r1, r2) /\ exact1' = exact1 + exact2 /\ abs1' = abs1 + abs2
              /\ r2' = Reg0 /\ exact2' = 0 /\ abs2' = 0 /\ len' = len
\* the other operand order: the accumulated register as the right-hand side
MergeInto2 == /\ len > 0 /\ InRangeE(exact1) /\ InRangeE(exact2) /\ InRangeE(exact1 + exact2) /\ abs1 + abs2 < 1000000000
              /\ (r1 # Reg0 \/ exact1 # 0)
              /\ r2' = Merge(r2, r1) /\ exact2' = exact1 + exact2 /\ abs2' = abs1 + abs2
              /\ r1' = Reg0 /\ exact1' = 0 /\ abs1' = 0 /\ len' = len
Next == Add1 \/ Add2 \/ MergeInto1 \/ MergeInto2
Spec == Init /\ [][Next]_vars

\* |value - exact| * 2^24 <= C * abs      (u = 2^-24)
Within(k, ex, ab) == BigLe(BigShl(BigOfInt(Abs(Value(k) - ex)), 24), BigMulInt(BigOfInt(ab), C))
ErrBound == Within(r1, exact1, abs1) /\ Within(r2, exact2, abs2)
\* intermediate values stay representable in the model
Representable == InRange(r1.s) /\ InRange(r2.s) /\ InRange(r1.c) /\ InRange(r2.c)
=============================================================================
