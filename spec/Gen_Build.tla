------------------------------ MODULE Gen_Build ------------------------------
(***************************************************************************)
(* C20, configuration part: the advertised feature sets of the crate.      *)
(* TLC emits one Build case per feature set; the driver runs               *)
(* `cargo build --offline --no-default-features --features <set>` on       *)
(* /repo's working tree (scratch target dir, removed afterwards) and logs  *)
(* the result; Trace_Build requires success for every set.  Also emits the *)
(* value round-trip cases (Confidence and Interval of every kind).         *)
(***************************************************************************)
EXTENDS Integers, Sequences, TLC, Json, IOUtils

Emit(c) == PrintT("CASE " \o ToJson(c))
Mode == IF "BUILD_MODE" \in DOMAIN IOEnv THEN IOEnv.BUILD_MODE ELSE "builds"

FeatureSets == { [name |-> "default",    flags |-> ""],
                 [name |-> "std",        flags |-> "--no-default-features --features std"],
                 [name |-> "std+approx", flags |-> "--no-default-features --features std,approx"],
                 [name |-> "std+serde",  flags |-> "--no-default-features --features std,serde"],
                 [name |-> "all",        flags |-> "--all-features"],
                 [name |-> "harness+serde", flags |-> "@harness-serde"] }

Levels == {"0.001", "0.01", "0.05", "0.1", "0.2", "0.25", "0.3", "0.5", "0.75", "0.8", "0.9", "0.95", "0.975", "0.99", "0.995",
           "0.998", "0.999", "0.9995", "0.9999", "0.007", "0.101", "0.333", "0.57", "0.123456789"}
CKinds == {"two", "upper", "lower"}
IKinds == {"two", "up", "low"}
ElemTypes == {"f64", "i32", "String"}

VARIABLE done
Init == done = FALSE
Next == /\ ~done
        /\ done' = TRUE
        /\ IF Mode = "builds"
           THEN \A fs \in FeatureSets : Emit([op |-> "build", name |-> fs.name, flags |-> fs.flags])
           ELSE /\ \A k \in CKinds, l \in Levels :
                     Emit([op |-> "serde.conf", c |-> [kind |-> k, level |-> [dec |-> l]]])
                \* states with more than 2^32 observations (counts are usize), below and above the boundary
                /\ \A nb \in {[a |-> 1, p |-> 31], [a |-> 1, p |-> 32], [a |-> 5, p |-> 31], [a |-> 3, p |-> 40]} :
                     Emit([op |-> "serde.state", kind |-> "prop", nbig |-> nb, k |-> 17, doublings |-> 0])
                /\ \A kd \in {"arith", "arith32", "geo", "harm", "paired", "unpaired"} : \A dbl \in {0, 5, 30, 31, 34} :
                     Emit([op |-> "serde.state", kind |-> kd, doublings |-> dbl])
                \* an interval returned by a public call for a reference over negative values (not ordered on the pinned tree)
                /\ Emit([op |-> "serde.interval", ty |-> "f64", n |-> 3, via |-> "relative_to", a |-> [k |-> "two", lo |-> 0, hi |-> 1]])
                /\ \A k \in IKinds, ty \in ElemTypes, lo \in 0..2, hi \in 0..2 : lo <= hi =>
                     Emit([op |-> "serde.interval", ty |-> ty, n |-> 3,
                           a |-> CASE k = "two" -> [k |-> k, lo |-> lo, hi |-> hi]
                                   [] k = "up"  -> [k |-> k, lo |-> lo]
                                   [] k = "low" -> [k |-> k, hi |-> hi]])
Spec == Init /\ [][Next]_done
=============================================================================
