------------------------------ MODULE Gen_Build ------------------------------
(***************************************************************************)
(* C20, configuration part: the advertised feature sets of the crate.      *)
(* TLC emits one Build case per feature set; the driver runs               *)
(* `cargo build --offline --no-default-features --features <set>` on       *)
(* /repo's working tree (scratch target dir, removed afterwards) and logs  *)
(* the result; Trace_Build requires success for every set.  Also emits the *)
(* value round-trip cases (Confidence and Interval of every kind).         *)
(***************************************************************************)
EXTENDS Integers, Sequences, TLC, Json, IOUtils

Emit(c) == PrintT("CASE " \o ToJson(c))
Mode == IF "BUILD_MODE" \in DOMAIN IOEnv THEN IOEnv.BUILD_MODE ELSE "builds"

FeatureSets == { [name |-> "default",    flags |-> ""],
                 [name |-> "std",        flags |-> "--no-default-features --features std"],
                 [name |-> "std+approx", flags |-> "--no-default-features --features std,approx"],
                 [name |-> "std+serde",  flags |-> "--no-default-features --features std,serde"],
                 [name |-> "all",        flags |-> "--all-features"],
                 [name |-> "harness+serde", flags |-> "@harness-serde"] }

Levels == {"0.001", "0.5", "0.95", "0.9999"}
CKinds == {"two", "upper", "lower"}
IKinds == {"two", "up", "low"}
ElemTypes == {"f64", "i32", "String"}

VARIABLE done
Init == done = FALSE
Next == /\ ~done
        /\ done' = TRUE
        /\ IF Mode = "builds"
           THEN \A fs \in FeatureSets : Emit([op |-> "build", name |-> fs.name, flags |-> fs.flags])
           ELSE /\ \A k \in CKinds, l \in Levels :
                     Emit([op |-> "serde.conf", c |-> [kind |-> k, level |-> [dec |-> l]]])
                /\ \A k \in IKinds, ty \in ElemTypes, lo \in 0..2, hi \in 0..2 : lo <= hi =>
                     Emit([op |-> "serde.interval", ty |-> ty, n |-> 3,
                           a |-> CASE k = "two" -> [k |-> k, lo |-> lo, hi |-> hi]
                                   [] k = "up"  -> [k |-> k, lo |-> lo]
                                   [] k = "low" -> [k |-> k, hi |-> hi]])
Spec == Init /\ [][Next]_done
=============================================================================
