----------------------------- MODULE Trace_Kahan -----------------------------
(***************************************************************************)
(* Trace validation of compensated summation (C08).  The validator carries *)
(* for every register the EXACT sum of everything it has been given and    *)
(* the sum of magnitudes (dyadic numbers; block and cycle events advance   *)
(* them by rep * x), and requires after every step                         *)
(*        |value - exact| <= 16 u abs                                      *)
(* with u the unit roundoff of the element type: the constant established  *)
(* for the reference model by MC_Kahan, independent of the number of terms.*)
(***************************************************************************)
EXTENDS Mean, Json, TLC

Rec == ndJsonDeserialize(IOEnv.TRACE)
Val(v) == Dy(BigOfInt(v.n), v.p)
C == 16
PrecT(ty) == IF ty = "f32" THEN 24 ELSE 53
ZeroReg == [ex |-> DyZero, ab |-> DyZero]

RECURSIVE SumSeq(_, _)
SumSeq(xs, absq) == IF xs = <<>> THEN DyZero
                    ELSE DyAdd(IF absq THEN DyAbs(Val(xs[1])) ELSE Val(xs[1]), SumSeq(Tail(xs), absq))

StepRegs(rg, act) ==
    LET r == act.r IN
    CASE act.a = "reset" -> [rg EXCEPT ![r] = ZeroReg]
      [] act.a \in {"from", "new"} -> [rg EXCEPT ![r] = [ex |-> Val(act.x), ab |-> DyAbs(Val(act.x))]]
      [] act.a \in {"add", "add_by_plus"} -> [rg EXCEPT ![r] = [ex |-> DyAdd(@.ex, Val(act.x)), ab |-> DyAdd(@.ab, DyAbs(Val(act.x)))]]
      [] act.a = "add_block" -> [rg EXCEPT ![r] = [ex |-> DyAdd(@.ex, DyMulInt(Val(act.x), act.rep)),
                                                   ab |-> DyAdd(@.ab, DyMulInt(DyAbs(Val(act.x)), act.rep))]]
      [] act.a \in {"add_cycle", "lfold", "rfold", "lfold_plus", "rfold_plus"} -> [rg EXCEPT ![r] = [ex |-> DyAdd(@.ex, DyMulInt(SumSeq(act.xs, FALSE), act.rep)),
                                                   ab |-> DyAdd(@.ab, DyMulInt(SumSeq(act.xs, TRUE), act.rep))]]
      [] act.a = "merge" -> [rg EXCEPT ![r] = [ex |-> DyAdd(rg[r].ex, rg[act.q].ex), ab |-> DyAdd(rg[r].ab, rg[act.q].ab)]]
      [] act.a = "merge_by_plus" -> [rg EXCEPT ![act.t] = [ex |-> DyAdd(rg[r].ex, rg[act.q].ex), ab |-> DyAdd(rg[r].ab, rg[act.q].ab)]]

Within(v, reg, prec) == v.tag = "fin" /\
    DyLe(DyAbs(DySub(FDy(v), reg.ex)), DyShift(DyMulInt(reg.ab, C), -prec))
\* |value - exact| in units of u * abs, rounded down (reported, not judged)
Units(v, reg, prec) == IF DySign(reg.ab) = 0 THEN 0
                       ELSE LET num == DyShift(DyAbs(DySub(FDy(v), reg.ex)), prec)
                                e == Min2(DyE(num), DyE(reg.ab))
                            IN BigToInt(BigDivFloor(DyAt(num, e), DyAt(reg.ab, e)))

VARIABLES l, cov, nbad, regs, maxu, fl
vars == <<l, cov, nbad, regs, maxu, fl>>
Init == l = 1 /\ cov = <<>> /\ nbad = 0 /\ regs = <<>> /\ maxu = 0 /\ fl = {}
Bump(c, cs) == [x \in DOMAIN c \cup cs |->
                   (IF x \in DOMAIN c THEN c[x] ELSE 0) + (IF x \in cs THEN 1 ELSE 0)]
Max2(a, b) == IF a >= b THEN a ELSE b

KahanStep(e) ==
    LET r0 == IF e.first THEN [i \in 1..e.nreg |-> ZeroReg] ELSE regs
        prec == PrecT(e.ty) IN
    /\ regs' = StepRegs(r0, e.act)
    /\ fl' = {c \in {"C08.error_bound"} : \E i \in 1..e.nreg : ~Within(e.vals[i], regs'[i], prec)}
             \cup {c \in {"C08.value_semantics"} : \E i \in 1..e.nreg : ~e.eqs[i] \/ e.disp[i] # e.vdisp[i]}
    /\ maxu' = Max2(maxu, IF fl' = {} THEN Units(e.vals[e.act.r], regs'[e.act.r], prec) ELSE 0)
    /\ cov' = Bump(cov, {"C08.error_bound", "C08.value_semantics", "C08.act." \o e.act.a, "C08.type." \o e.ty}
                        \cup (IF e.act.a \in {"add_block", "add_cycle"} /\ e.act.rep >= 100000 THEN {"C08.long_stream." \o e.ty} ELSE {})
                        \cup (IF e.act.a \in {"lfold", "rfold", "lfold_plus", "rfold_plus"} /\ e.act.rep >= 1000 THEN {"C08.long_" \o e.act.a \o "." \o e.ty} ELSE {})
                        \cup (IF e.act.a \in {"add_block", "add_cycle", "lfold", "rfold"} /\ e.act.rep >= 1000 /\ DySign(regs'[e.act.r].ex) < 0 THEN {"C08.negative_sum_stream"} ELSE {})
                        \cup (IF e.act.a \in {"add_block", "add_cycle"} /\ e.act.rep >= 1000 /\ DySign(regs'[e.act.r].ab) > 0
                                 /\ DyLt(regs'[e.act.r].ab, Dy(BigOfInt(1), IF e.ty = "f32" THEN -90 ELSE -900)) THEN {"C08.tiny_magnitude_stream." \o e.ty} ELSE {})
                        \cup (IF e.nreg >= 8 /\ e.act.a \in {"merge", "merge_by_plus"} THEN {"C08.merge_tree"} ELSE {})
                        \* folds of registers that are each below half an ulp of the running sum
                        \cup (IF e.act.a \in {"lfold", "rfold", "lfold_plus", "rfold_plus"} /\ e.act.rep >= 1000
                                 /\ DyLt(Dy(BigOfInt(1), IF e.ty = "f32" THEN 29 ELSE 59), DyAbs(regs'[e.act.r].ex))
                              THEN {"C08.fold_of_absorbed_registers." \o e.ty} ELSE {}))

StatStep(e) ==
    LET st == Moments(e.data)  prec == PrecT(e.ty) IN
    /\ regs' = regs /\ maxu' = maxu
    /\ fl' = {c \in {"C08.statistics_inherit"} :
                ~(/\ e.stats.mean.tag = "fin" /\ MeanOK(st, FDy(e.stats.mean), prec)
                  /\ e.stats.var.tag = "fin" /\ VarLikeOK(st, FDy(e.stats.var), prec, 3)
                  /\ e.stats.count = st.n)}
    /\ cov' = Bump(cov, {"C08.statistics_inherit", "C08.statistics." \o e.ty, "C08.statistics_fed_by." \o e.style})

Next == /\ l <= Len(Rec)
        /\ IF Rec[l].op = "kahan.step" THEN KahanStep(Rec[l]) ELSE StatStep(Rec[l])
        /\ (fl' # {}) => PrintT("BAD " \o ToJson([id |-> Rec[l].id, failed |-> fl']))
        /\ nbad' = nbad + (IF fl' = {} THEN 0 ELSE 1)
        /\ l' = l + 1
Spec == Init /\ [][Next]_vars
Flush == (l = Len(Rec) + 1) =>
            PrintT("COV " \o ToJson([events |-> Len(Rec), bad |-> nbad, cov |-> cov, max_error_in_units_of_u_sum_abs |-> maxu]))
=============================================================================
