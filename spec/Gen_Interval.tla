----------------------------- MODULE Gen_Interval -----------------------------
(***************************************************************************)
(* Case generator for the interval algebra: TLC enumerates every           *)
(* transition of the interval session from every assignment of the         *)
(* registers over the bounded carrier and prints it as one JSON case.      *)
(* The harness replays each case on the real crate.                        *)
(*   FAMILY=chain : order-only operations over a chain 0..N-1 with outer   *)
(*                  witnesses -1 and N, for every element type             *)
(*   FAMILY=box   : arithmetic over the integer box -BOX..BOX (i32, f64)   *)
(*   FAMILY=rel   : relative_to over the dyadic grid {0, 1/2, 1, 2, 4}     *)
(***************************************************************************)
EXTENDS IvFamily, Json

ChainTypes == {"i32", "i8", "u8", "f64", "f64nz", "f64pz", "f64inf", "char", "String"}
BoxTypes   == {"i32", "f64"}

VARIABLES a, b, done
vars == <<a, b, done>>

Prop    == IF "PROP" \in DOMAIN IOEnv THEN IOEnv.PROP ELSE "ALL"
Want(p) == Prop \in {"ALL", p}
Emit(c) == PrintT("CASE " \o ToJson(c))

Init == a \in I /\ b \in I /\ done = FALSE

\* --- chain family ---------------------------------------------------------
Binary == /\ \A ty \in ChainTypes :
               /\ Want("C07") => \A op \in RelOps : Emit([op |-> op, ty |-> ty, n |-> N, a |-> a, b |-> b])
               /\ Want("C15") => Emit([op |-> "iv.cmp", ty |-> ty, n |-> N, a |-> a, b |-> b])
               /\ Want("C14") => Emit([op |-> "iv.eqhash", ty |-> ty, n |-> N, a |-> a, b |-> b])
          \* float intervals whose extreme bound positions are -inf / +inf given as explicit BOUNDS ("f64xb"): such a pair
          \* has no agreed set denotation, but Equal <=> == and the operator forms do not depend on one
          /\ Want("C15") => Emit([op |-> "iv.cmp", ty |-> "f64xb", n |-> N, a |-> a, b |-> b])

Unary  == /\ a = b
          /\ \A ty \in ChainTypes :
               /\ Want("C07") => \A x \in W :
                               /\ Emit([op |-> "iv.contains", ty |-> ty, n |-> N, a |-> a, x |-> x])
                               /\ Emit([op |-> "iv.range_contains", ty |-> ty, n |-> N, a |-> a, x |-> x])
               \* the NaN probe (code 99) of the float types: not a member of any closed set of reals, in either view
               /\ (Want("C07") /\ ty \in {"f64", "f64inf"}) =>
                               /\ Emit([op |-> "iv.contains", ty |-> ty, n |-> N, a |-> a, x |-> 99])
                               /\ Emit([op |-> "iv.range_contains", ty |-> ty, n |-> N, a |-> a, x |-> 99])
               \* C14: the view of an interval as a range (start_bound / end_bound) is one of its conversions
               /\ (Prop = "C14") => \A x \in W : Emit([op |-> "iv.range_contains", ty |-> ty, n |-> N, a |-> a, x |-> x])
               /\ Want("C14") => Emit([op |-> "iv.observe", ty |-> ty, n |-> N, a |-> a])
               /\ Want("C19") => Emit([op |-> "iv.display", ty |-> ty, n |-> N, a |-> a])
          \* Display of elements whose own rendering is very long (extreme float magnitudes, long strings)
          /\ Want("C19") => \A ty \in {"f64ext", "Stringlong"} : Emit([op |-> "iv.display", ty |-> ty, n |-> N, a |-> a])

\* constructors: every pair of raw bounds (ordered, equal, inverted) through every path;
\* driven from the register contents: lo/hi are taken from two two-sided registers' low ends
Make   == /\ a.k = "two" /\ b.k = "two" /\ a.lo = a.hi /\ b.lo = b.hi
          /\ \A ty \in ChainTypes, path \in MakePaths :
               IF path = "optpair"
               THEN \A hl \in BOOLEAN, hh \in BOOLEAN :
                      Emit([op |-> "iv.make", ty |-> ty, n |-> N, path |-> path,
                            haslo |-> hl, lo |-> a.lo, hashi |-> hh, hi |-> b.lo])
               ELSE Emit([op |-> "iv.make", ty |-> ty, n |-> N, path |-> path,
                          haslo |-> TRUE, lo |-> a.lo, hashi |-> TRUE, hi |-> b.lo])

\* --- box family -----------------------------------------------------------
FScalarOps == {"add", "sub", "mul", "div_s4", "neg"}
Scalar == /\ a = b
          /\ \A k \in Scalars :
               /\ \A op \in ScalarOps : ScalarAdmissible(op, a, k) =>
                     Emit([op |-> "iv.scalar", ty |-> "i32", sop |-> op, a |-> a, k |-> k])
               /\ \A op \in FScalarOps :
                     (ScalarAdmissible(op, a, k) /\ (op = "div_s4" => k \in {-4, -2, -1, 1, 2, 4})) =>
                     Emit([op |-> "iv.scalar", ty |-> "f64", sop |-> op, a |-> a, k |-> k])
BinArith == \A ty \in BoxTypes, op \in {"add", "sub"} :
               Emit([op |-> "iv.binary", ty |-> ty, bop |-> op, a |-> a, b |-> b])

\* --- rel family -----------------------------------------------------------
\* also with both intervals scaled by 2^-60 and 2^60 (no absolute thresholds: a tiny positive reference is not zero)
Relative == /\ Emit([op |-> "iv.relative_to", ty |-> "f64", a |-> a, b |-> b, grid |-> RelGrid, scale |-> RelScale])
            /\ Emit([op |-> "iv.relative_to", ty |-> "f64", a |-> a, b |-> b, grid |-> RelGrid, scale |-> RelScale, dexp |-> 60])
            /\ Emit([op |-> "iv.relative_to", ty |-> "f64", a |-> a, b |-> b, grid |-> RelGrid, scale |-> RelScale, dexp |-> -60])

Relative3 == Emit([op |-> "iv.relative_round", ty |-> "f64", a |-> a, b |-> b, scale |-> RelScale])

\* two-sided float intervals with infinite bounds (codes 0 = -inf, 1 = 1.0, 2 = +inf), emitted once
InfiniteBounds == \A lo \in 0..2, hi \in 0..2 : Emit([op |-> "iv.infinite_bounds", ty |-> "f64", lo |-> lo, hi |-> hi])

Next == /\ ~done
        /\ done' = TRUE
        /\ UNCHANGED <<a, b>>
        /\ CASE Family = "chain" -> (Binary /\ (a = b => Unary)
                                      /\ ((Want("C14") /\ a.k = "two" /\ b.k = "two" /\ a.lo = a.hi /\ b.lo = b.hi) => Make)
                                      /\ ((Want("C14") /\ a = b /\ a.k = "two" /\ a.lo = 0 /\ a.hi = 0) => InfiniteBounds))
             [] Family = "box"   -> (BinArith /\ (a = b => Scalar))
             [] Family = "rel"   -> Relative
             [] Family = "rel3"  -> Relative3

Spec == Init /\ [][Next]_vars
=============================================================================
