-------------------------------- MODULE Kahan --------------------------------
(***************************************************************************)
(* utils::KahanSum as a state machine, in an exactly modelled float        *)
(* format: binary32 restricted to integer values (every f32 value that is  *)
(* an integer of magnitude < 2^31, and every rounding of a sum of two of   *)
(* them, is computed exactly with TLC integers).                           *)
(*                                                                         *)
(*   kahan_add(sum, x, c):  y = x - c;  t = sum + y;  c' = (t - sum) - y   *)
(*   the register represents sum - c:   value = sum - c                    *)
(*   reg += other: the register with the smaller |sum| is accumulated into *)
(*   the one with the larger |sum| (Kahan's error term is exact only while *)
(*   the running sum dominates the addend):                                *)
(*        kahan_add(small.sum); kahan_add(-small.c)                        *)
(*                                                                         *)
(* Ghost state: `exact` = the real sum of everything added, `abs` = the    *)
(* sum of magnitudes.  Property C08 on the model: |value - exact| <= C u   *)
(* abs with u = 2^-24, a constant C independent of the number of terms.    *)
(***************************************************************************)
EXTENDS Integers

Abs(x) == IF x < 0 THEN -x ELSE x
RECURSIVE BitLen(_)
BitLen(n) == IF n = 0 THEN 0 ELSE 1 + BitLen(n \div 2)
RECURSIVE P2(_)
P2(n) == IF n = 0 THEN 1 ELSE 2 * P2(n - 1)

\* round an integer to 24 significant bits, ties to even (binary32 addition of integers)
RoundF32(x) ==
    LET a == Abs(x)  b == BitLen(a) IN
    IF b <= 24 THEN x
    ELSE LET sh == b - 24
             q  == a \div P2(sh)
             r  == a % P2(sh)
             h  == P2(sh - 1)
             qq == IF r > h \/ (r = h /\ q % 2 = 1) THEN q + 1 ELSE q
         IN (IF x < 0 THEN -1 ELSE 1) * qq * P2(sh)

FAdd(x, y) == RoundF32(x + y)
FSub(x, y) == RoundF32(x - y)

Reg0 == [s |-> 0, c |-> 0]
KahanAdd(k, x) == LET y == FSub(x, k.c)
                      t == FAdd(k.s, y)
                  IN [s |-> t, c |-> FSub(FSub(t, k.s), y)]
Value(k)      == FSub(k.s, k.c)
Into(big, small) == KahanAdd(KahanAdd(big, small.s), -small.c)
Merge(k, o)   == IF Abs(o.s) > Abs(k.s) THEN Into(o, k) ELSE Into(k, o)
\* the pinned code before the fix (kept for reference; MC_Kahan with this variant and long right
\* folds in the conformance streams exposed the defect)
ValuePinned(k)    == FAdd(k.s, k.c)
MergePinned(k, o) == KahanAdd(KahanAdd(k, o.s), o.c)
=============================================================================
