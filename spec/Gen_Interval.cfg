SPECIFICATION Spec
CONSTANTS
  B <- G_B
  W <- G_W
  Scalars <- G_Scalars
CHECK_DEADLOCK FALSE
