------------------------------- MODULE Gen_Mean -------------------------------
(***************************************************************************)
(* Case generator for mean and comparison intervals.                       *)
(*  PART=c01 : arithmetic mean - seeded random run-length samples (mixed   *)
(*             signs, duplicates, offsets, dyadic scalings, n - 1 a row of *)
(*             the reference table), special shapes, large n as blocks     *)
(*             (both sides of the t -> z switch), x levels x kinds x       *)
(*             {f32, f64} x call styles (grouped: must agree bit for bit)  *)
(*  PART=c06 : symmetric probe data (+-1) for every degrees-of-freedom row *)
(*             of the table x 17 levels x 3 kinds                          *)
(*  PART=c04 : paired (explicit aligned sequences) and unpaired samples    *)
(*             (designed integer effective dof, random, exchanged)         *)
(*  PART=c05 : strictly positive samples for geometric / harmonic means    *)
(***************************************************************************)
EXTENDS RefTables, Rng, TLC, Sequences, Integers

EnvInt(name, default) == IF name \in DOMAIN IOEnv THEN atoi(IOEnv[name]) ELSE default
Part == IF "PART" \in DOMAIN IOEnv THEN IOEnv.PART ELSE "c01"
Thorough == IF "TIER" \in DOMAIN IOEnv THEN IOEnv.TIER = "thorough" ELSE FALSE
ND == EnvInt("MEAN_SETS", 40)
Emit(c) == PrintT("CASE " \o ToJson(c))

CKinds == <<"two", "upper", "lower">>
Conf(ki, li) == [kind |-> CKinds[ki], level |-> [dec |-> LevelDec(li)]]
LevQuick == {1, 4, 8, 12, 14, 19}
Levs == IF Thorough THEN 1..NLEV ELSE LevQuick
V(n, p) == [n |-> n, p |-> p]

\* ---- random run-length sample of size n (values N * 2^P, |N| < 2^24) ---------------------------
RandSample(i, n, off, p) ==
    LET q  == n \div 4
        c1 == Pick(i, 1, 0, q)  c2 == Pick(i, 2, 0, q)  c3 == Pick(i, 3, 0, q)  c4 == Pick(i, 4, 0, q)
        c5 == n - c1 - c2 - c3 - c4
    IN [rle |-> << <<V(off + Pick(i, 5, -1000, 1000), p), c1>>, <<V(off + Pick(i, 6, -1000, 1000), p), c2>>,
                   <<V(off + Pick(i, 7, -50, 50), p), c3>>, <<V(off - 977, p), c4>>, <<V(off + 1013, p), c5>> >>,
        order |-> "asc"]
Offsets == <<0, 0, 5000, -20000>>
Exps    == <<-4, 0, 3>>
ScaleP  == <<0, 0, -20, 20>>

\* "ci_sparse": the one-shot call on a container whose by-reference iterator reports an inexact size hint
MeanStyles == IF Thorough THEN <<"ci", "ops", "meanci", "from_iter", "extend", "append", "ci_sparse">>
              ELSE <<"ci", "meanci", "extend", "append", "ci_sparse">>

MeanCase(fl, ty, style, ki, li, data, first, role) ==
    [op |-> "mean.ci", fl |-> fl, ty |-> ty, style |-> style, conf |-> Conf(ki, li), li |-> li,
     data |-> data, first |-> first, role |-> role]

EmitStyles(fl, ty, ki, li, data) ==
    \A si \in DOMAIN MeanStyles :
        Emit(MeanCase(fl, ty, MeanStyles[si], ki, li, data, si = 1, IF si = 1 THEN "base" ELSE "style"))

VARIABLE done
Init == done = FALSE

\* ---- C01 ----------------------------------------------------------------------------------------
Shapes == << [rle |-> << <<V(7, 0), 5>> >>, order |-> "asc"],                                   \* constant
             [rle |-> << <<V(-3, 0), 4>>, <<V(9, -2), 7>> >>, order |-> "interleave"],          \* two-point
             [rle |-> [i \in 1..12 |-> <<V(3 * i - 20, 0), 1>>], order |-> "desc"],              \* progression
             [rle |-> << <<V(2, 0), 30>>, <<V(3, 0), 30>>, <<V(100000, 0), 1>> >>, order |-> "asc"],   \* outlier
             [rle |-> << <<V(1, 0), 1>>, <<V(2, 0), 1>> >>, order |-> "asc"],                    \* n = 2
             [rle |-> << <<V(-5, -10), 2>>, <<V(11, -10), 1>> >>, order |-> "asc"] >>            \* n = 3
\* (17 825 793 = 2^24 + 2^20 + 1 observations: beyond the integers a f32 can count)
\* (4096, 65536: whole multiples of the block sizes a chunked implementation would choose)
BigNs == IF Thorough THEN <<1001, 4096, 5001, 8192, 50001, 65536, 99998, 100000, 100001, 100002, 250000, 1000000, 17825793>>
         ELSE <<1001, 4096, 65536, 100000, 100001, 250000, 17825793>>
C01Part(d) ==
  /\ \A i \in 1..ND :
       LET n == Pick(i, 11, 2, 301)  data == RandSample(i, n, Offsets[Pick(i, 12, 1, 4)], Exps[Pick(i, 13, 1, 3)])
           sc == ScaleP[Pick(i, 14, 1, 4)]
           dd == IF sc = 0 THEN data ELSE data @@ [scale |-> [p |-> sc]]
       IN \A ty \in {"f64", "f32"} : \A li \in Levs : \A ki \in 1..3 : EmitStyles("arith", ty, ki, li, dd)
  /\ \A s \in DOMAIN Shapes : \A ty \in {"f64", "f32"} : \A li \in Levs : \A ki \in 1..3 :
       /\ EmitStyles("arith", ty, ki, li, Shapes[s])
       \* ... and through the StatisticsOps trait only (what generic code reaches)
       /\ \A st \in {"ops", "ops_mean", "ops_append"} : Emit(MeanCase("arith", ty, st, ki, li, Shapes[s], FALSE, "style"))
  \* irregular samples: every value distinct, no symmetry, supplied in no particular order
  /\ \A i \in 1..((ND + 1) \div 2) : \A ty \in {"f64", "f32"} : \A li \in Levs : \A ki \in 1..3 :
       LET n == Pick(700 + i, 11, 5, 60)
           data == [rle |-> [j \in 1..n |-> <<V((Pick(700 + i, 100 + j, -500, 500) * 64) + j, -3), 1>>], order |-> "asc"] IN
       EmitStyles("arith", ty, ki, li, data)
  \* magnitudes at which the square of the SUM leaves the float range while every square and the sum of squares
  \* stay inside (200 values of about 5000 * 2^45 in f32, 5000 * 2^494 in f64), and tiny ones (2^-60 / 2^-500)
  /\ \A i \in 1..2 : \A ty \in {"f64", "f32"} : \A sg \in {1, -1} : \A li \in {8, 12} : \A ki \in 1..3 :
       LET big == IF ty = "f32" THEN 45 ELSE 494
           tiny == IF ty = "f32" THEN -60 ELSE -500
           data == RandSample(600 + i, 200, 5000, 0) @@ [scale |-> [p |-> IF sg = 1 THEN big ELSE tiny]] IN
       EmitStyles("arith", ty, ki, li, data)
  \* observations that are exactly zero, and observations whose SQUARE underflows to zero (3 * 2^-600 / 3 * 2^-100)
  /\ \A ty \in {"f64", "f32"} : \A li \in {8, 12} : \A ki \in 1..3 : \A s \in 1..4 :
       LET tp == IF ty = "f32" THEN -100 ELSE -600
           data == CASE s = 1 -> [rle |-> << <<V(0, 0), 3>>, <<V(5, 0), 4>>, <<V(-2, 0), 2>> >>, order |-> "interleave"]
                     [] s = 2 -> [rle |-> << <<V(3, tp), 2>>, <<V(1, 0), 3>>, <<V(2, 0), 2>> >>, order |-> "interleave"]
                     [] s = 3 -> [rle |-> << <<V(0, 0), 1>>, <<V(1, 0), 1>> >>, order |-> "asc"]
                     [] s = 4 -> [rle |-> << <<V(1, 0), 1>>, <<V(0, 0), 1>>, <<V(-1, 0), 1>>, <<V(0, 0), 1>> >>, order |-> "asc"] IN
       EmitStyles("arith", ty, ki, li, data)
  \* magnitudes at which every SQUARE leaves the float range (about 5000 * 2^70 in f32, 5000 * 2^520 in f64): the documented
  \* outcome is an error; an interval, if one is returned, is judged like any other
  /\ \A ty \in {"f64", "f32"} : \A li \in {8, 12} : \A ki \in 1..3 :
       LET data == RandSample(650, 20, 5000, 0) @@ [scale |-> [p |-> IF ty = "f32" THEN 70 ELSE 520]] IN
       \A si \in DOMAIN MeanStyles :
          Emit(MeanCase("arith", ty, MeanStyles[si], ki, li, data, si = 1, IF si = 1 THEN "base" ELSE "style") @@ [ovf |-> TRUE])
  /\ \A b \in DOMAIN BigNs : \A ty \in {"f64", "f32"} : \A li \in {2, 7, 8, 12, 19} : \A ki \in 1..3 :
       LET n == BigNs[b]
           data == [rle |-> << <<V(-3, -1), n \div 3>>, <<V(5, 0), n \div 3>>, <<V(64, 0), n - 2 * (n \div 3)>> >>,
                    order |-> "interleave"]
       IN /\ Emit(MeanCase("arith", ty, "ci", ki, li, data, TRUE, "base"))
          /\ Emit(MeanCase("arith", ty, "extend", ki, li, data, FALSE, "style"))

\* ---- C06 ----------------------------------------------------------------------------------------
Probe(n) == IF n % 2 = 0 THEN [rle |-> << <<V(-1, 0), n \div 2>>, <<V(1, 0), n \div 2>> >>, order |-> "interleave"]
            ELSE [rle |-> << <<V(-1, 0), n \div 2>>, <<V(1, 0), n \div 2>>, <<V(0, 0), 1>> >>, order |-> "interleave"]
NuSel == IF Thorough THEN 1..NNU ELSE (1..120) \cup {i \in 121..NNU : i % 10 = 0} \cup {NNU - 2, NNU - 1, NNU}
BigCountPart(d) ==
  \A ty \in {"f64", "f32"} : \A p \in {29, 30, 31} : \A x \in {1, 2} : \A li \in {8, 12, 14} : \A ki \in 1..3 :
     Emit(MeanCase("arith", ty, "doubling", ki, li, Probe(4), TRUE, "base") @@ [doublings |-> p, extra |-> x])
C06Part(d) ==
  /\ \A ni \in NuSel : \A li \in 1..NLEV : \A ki \in 1..3 :
       Emit(MeanCase("arith", "f64", "ci", ki, li, Probe(NuOf(ni) + 1), TRUE, "base"))
  /\ \A n \in {100001, 100002, 150000, 250000, 1000001} : \A li \in 1..NLEV : \A ki \in 1..3 :
       Emit(MeanCase("arith", "f64", "extend", ki, li, Probe(n), TRUE, "base"))
  /\ \A ni \in {1, 2, 3, 9, 30, 99, 299} : \A li \in 1..NLEV : \A ki \in 1..3 :
       Emit(MeanCase("arith", "f32", "ci", ki, li, Probe(NuOf(ni) + 1), TRUE, "base"))
  \* states holding more observations than 31 / 32 / 33 bits count (the probe of 4 merged with itself 29 .. 31 times, then
  \* delivered once or twice more): 4 * (2^p + x) observations, far inside the normal branch
  /\ BigCountPart(d)

\* levels far outside the tabulated grid (tails of 10^-6 .. 10^-12 on either side) at even degrees of freedom, where the
\* t distribution function is algebraic and TLC decides the critical value without any table
\* (far tails only: next to the median the dependency's quantile function has an absolute error of about 10^-11, which is
\* a relative error of 10^-5 at a two-sided level of 10^-6 - levels nobody uses, left out)
ExtremeLevels == <<"0.999999", "0.999999999", "0.9999999999", "0.999999999999", "0.99999", "0.000001", "0.000000001", "0.000000000001">>
C06Extreme(d) ==
  \A n \in {3, 5, 11, 31} : \A xi \in DOMAIN ExtremeLevels : \A ki \in 1..3 : (xi <= 5 \/ ki # 1) =>
     Emit([op |-> "mean.ci", fl |-> "arith", ty |-> "f64", style |-> "ci",
           conf |-> [kind |-> CKinds[ki], level |-> [dec |-> ExtremeLevels[xi]]], li |-> 0,
           data |-> Probe(n), first |-> TRUE, role |-> "base", extreme |-> TRUE])
\* ... and at pseudo-random levels that are on no grid (31-bit dyadic fractions, at least 1/64 away from the median's level:
\* two-sided levels in [1/64, 1), one-sided levels in (0, 31/64] and [33/64, 1))
OffGridLevel(i, ki) ==
    LET r == Pick(3300 + i, ki, 0, 2113929215)                      \* 63 * 2^25 - 1
    IN IF ki = 1 THEN [n |-> 33554432 + r, p |-> -31]                \* 2^25 + r
       ELSE IF r % 2 = 0 THEN [n |-> 1 + (r \div 2), p |-> -31]      \* below 31/64 * ... (strictly inside (0, 1/2))
       ELSE [n |-> 1107296256 + ((r \div 2) % 1040187391), p |-> -31]     \* 33 * 2^25 + (less than 31 * 2^25 - 1): below 1
C06OffGrid(d) ==
  \A n \in {3, 5, 11, 31} : \A i \in 1..12 : \A ki \in 1..3 :
     Emit([op |-> "mean.ci", fl |-> "arith", ty |-> "f64", style |-> "ci",
           conf |-> [kind |-> CKinds[ki], level |-> OffGridLevel(i, ki)], li |-> 0,
           data |-> Probe(n), first |-> TRUE, role |-> "base", extreme |-> TRUE, offgrid |-> TRUE])

\* ---- C04 ----------------------------------------------------------------------------------------
Seq1(xs) == [rle |-> [i \in DOMAIN xs |-> <<xs[i], 1>>], order |-> "asc"]
RandSeq(g, n, off, p) == [i \in 1..n |-> V(off + Pick(g, 100 + i, -500, 500), p)]
PairedStyles == IF Thorough THEN <<"ci", "extend", "extend_tuple", "append_pair", "ci_sparse">> ELSE <<"ci", "extend_tuple", "append_pair", "ci_sparse">>
UnpairedStyles == IF Thorough THEN <<"ci", "extend", "from_iter", "extend_a_b", "append_a_b", "append_pair", "new", "mut", "ci_sparse">>
                  ELSE <<"ci", "from_iter", "append_pair", "new", "mut", "ci_sparse">>
FlipK == <<1, 3, 2>>          \* exchanging the samples exchanges upper and lower
TwoCase(fl, ty, style, ki, li, da, db, first, role) ==
    MeanCase(fl, ty, style, ki, li, da, first, role) @@ [datab |-> db]
C04Part(d) ==
  /\ \A i \in 1..ND : \A ty \in {"f64", "f32"} :
       LET n == Pick(i, 21, 2, 150)  p == Exps[Pick(i, 22, 1, 3)]
           xa == RandSeq(2 * i, n, Offsets[Pick(i, 23, 1, 4)], p)  xb == RandSeq(2 * i + 1, n, 100, p)
       IN \A li \in LevQuick : \A ki \in 1..3 : \A si \in DOMAIN PairedStyles :
             Emit(TwoCase("paired", ty, PairedStyles[si], ki, li, Seq1(xa), Seq1(xb), si = 1, IF si = 1 THEN "base" ELSE "style"))
  \* constant differences: the sample of differences is constant, the interval degenerate - of the requested kind
  /\ \A n \in {2, 3, 17} : \A ty \in {"f64", "f32"} : \A sh \in {0, -3, 40} :
       LET xa == RandSeq(8000 + n, n, 0, 0)
           xb == [i \in 1..n |-> V(xa[i].n - sh, 0)] IN
       \A li \in LevQuick : \A ki \in 1..3 : \A si \in DOMAIN PairedStyles :
          Emit(TwoCase("paired", ty, PairedStyles[si], ki, li, Seq1(xa), Seq1(xb), si = 1, IF si = 1 THEN "base" ELSE "style"))
  \* unequal lengths, both directions
  /\ \A la \in {0, 1, 3, 7}, lb \in {0, 2, 3, 9} : la # lb =>
       \A ty \in {"f64", "f32"}, si \in {1, 2} :
          Emit(TwoCase("paired", ty, <<"ci", "extend">>[si], 1, 12, Seq1(RandSeq(7001, la, 0, 0)), Seq1(RandSeq(7002, lb, 0, 0)), TRUE, "base"))
  \* unpaired, designed families with integer effective degrees of freedom, and random samples;
  \* every case also with the samples exchanged (second event of the group)
  /\ \A i \in 1..ND : \A ty \in {"f64", "f32"} :
       LET fam == (i % 3)
           na == Pick(i, 31, 2, 60)  nb == IF fam = 1 THEN na ELSE Pick(i, 32, 2, 60)
           da == RandSample(3000 + i, na, Offsets[Pick(i, 33, 1, 4)], 0)
           db == CASE fam = 0 -> [rle |-> << <<V(Pick(i, 34, -900, 900), 0), nb>> >>, order |-> "asc"]    \* constant: nu = na - 1
                   [] fam = 1 -> da @@ [shift |-> V(Pick(i, 35, -300, 300), 0)]                         \* same spread, n: nu = 2n
                   [] OTHER   -> RandSample(5000 + i, nb, 40, 0)
       IN \A li \in LevQuick : \A ki \in 1..3 : \A si \in DOMAIN UnpairedStyles :
             /\ Emit(TwoCase("unpaired", ty, UnpairedStyles[si], ki, li, da, db, si = 1, IF si = 1 THEN "base" ELSE "style")
                     @@ [fam |-> fam])
             /\ (si = 1) => Emit(TwoCase("unpaired", ty, "ci", FlipK[ki], li, db, da, FALSE, "exchange") @@ [fam |-> fam])

\* unpaired samples at very small / very large magnitudes (no absolute thresholds in the formula)
\* f32 observations of about 10^10 .. 10^12: the squares of s^2/n leave the float range.  The documented outcome there is
\* InvalidInputData; an interval is admitted too, but then it has to be the right one (samples of unequal size, both orders)
OverflowUnpaired(d) ==
  \A i \in 1..2 : \A li \in {8, 12} : \A ki \in 1..3 :
     LET da == RandSample(7400 + i, 30, 0, 0) @@ [scale |-> [p |-> 30]]
         db == RandSample(7500 + i, 4 + i, 40, 0) @@ [scale |-> [p |-> 30]] IN
     /\ Emit(TwoCase("unpaired", "f32", "ci", ki, li, da, db, TRUE, "base") @@ [fam |-> 2, ovf |-> TRUE])
     /\ Emit(TwoCase("unpaired", "f32", "ci", ki, li, db, da, TRUE, "base") @@ [fam |-> 2, ovf |-> TRUE])

ScaledUnpaired(d) ==
  \A i \in 1..3 : \A ty \in {"f64", "f32"} : \A sc \in (IF ty = "f64" THEN {-60, -30, 40} ELSE {-16, 12}) :
     LET na == Pick(400 + i, 31, 3, 40)  nb == Pick(400 + i, 32, 3, 40)
         da == RandSample(7000 + i, na, 0, 0) @@ [scale |-> [p |-> sc]]
         db == RandSample(7100 + i, nb, 40, 0) @@ [scale |-> [p |-> sc]] IN
     \A li \in LevQuick : \A ki \in 1..3 :
        Emit(TwoCase("unpaired", ty, "ci", ki, li, da, db, TRUE, "base") @@ [fam |-> 2])

\* strongly unbalanced unpaired samples: a few noisy observations against a very long constant sample.  The
\* effective degrees of freedom are exactly na - 1 (a row of the table) however large na + nb is.
UnbalancedUnpaired(d) ==
  \A i \in 1..3 : \A ty \in {"f64", "f32"} : \A nb \in {1000, 99990, 100000, 250000} :
     LET na == 4 + 2 * i
         da == RandSample(7300 + i, na, 0, 0)
         db == [rle |-> << <<V(5 * i, 0), nb>> >>, order |-> "asc"] IN
     \A li \in LevQuick : \A ki \in 1..3 :
        /\ Emit(TwoCase("unpaired", ty, "ci", ki, li, da, db, TRUE, "base") @@ [fam |-> 0])
        /\ Emit(TwoCase("unpaired", ty, "ci", FlipK[ki], li, db, da, FALSE, "exchange") @@ [fam |-> 0])

\* designed sample pairs with NON-INTEGER effective degrees of freedom (spec/tables/tqx.ndjson):
\* consecutive pairs share the integer part of the dof, and the cases of one confidence are emitted
\* back to back (the harness runs this part on one thread): a stale or truncated dof shows
DesignedPart(d) ==
  \A li \in 1..NLEV : \A ki \in 1..3 : \A ty \in {"f64"} : \A pi \in 1..NDesigned : \A sw \in {1, 2} :
     LET da == Seq1([j \in DOMAIN DesignedA(pi) |-> V(DesignedA(pi)[j], 0)])
         db == Seq1([j \in DOMAIN DesignedB(pi) |-> V(DesignedB(pi)[j], 0)]) IN
     Emit(TwoCase("unpaired", ty, "ci", IF sw = 1 THEN ki ELSE FlipK[ki], li,
                  IF sw = 1 THEN da ELSE db, IF sw = 1 THEN db ELSE da, sw = 1, IF sw = 1 THEN "base" ELSE "exchange")
          @@ [designed |-> pi])

\* ---- C05 ----------------------------------------------------------------------------------------
PosSample(i, n, p) ==
    LET q == n \div 3  c1 == Pick(i, 41, 0, q)  c2 == Pick(i, 42, 0, q)  c3 == n - c1 - c2
    IN [rle |-> << <<V(Pick(i, 43, 1, 4000), p), c1>>, <<V(Pick(i, 44, 1, 4000), p), c2>>, <<V(Pick(i, 45, 900, 1100), p), c3>> >>,
        order |-> "interleave"]
Pow2Sample(i, n) == [rle |-> << <<V(1, Pick(i, 46, -30, 30)), n \div 2>>, <<V(1, Pick(i, 47, -3, 3)), n - n \div 2>> >>, order |-> "asc"]
C05Part(d) ==
  /\ \A i \in 1..ND : \A fl \in {"geo", "harm"} : \A ty \in {"f64", "f32"} :
       LET n == Pick(i, 48, 2, 200)
           data == IF i % 4 = 0 THEN Pow2Sample(i, n) ELSE PosSample(i, n, Exps[Pick(i, 49, 1, 3)])
       IN \A li \in Levs : \A ki \in 1..3 :
            /\ Emit(MeanCase(fl, ty, "ci", ki, li, data, TRUE, "base") @@ [aux |-> TRUE])
            /\ Emit(MeanCase(fl, ty, "extend", ki, li, data, FALSE, "style") @@ [aux |-> FALSE])
            \* ... and through the StatisticsOps trait only (one-shot, fed in bulk, fed one by one)
            /\ Emit(MeanCase(fl, ty, <<"ops", "ops_mean", "ops_append", "ci_sparse">>[(i % 4) + 1], ki, li, data, FALSE, "style") @@ [aux |-> FALSE])
  \* the same kind of samples at very large / very small magnitudes (reciprocal-space quantities near the
  \* machine epsilon are still ordinary numbers)
  /\ \A i \in 1..((ND + 3) \div 4) : \A ty \in {"f64", "f32"} : \A sc \in {-1, 1} :
       LET n == Pick(900 + i, 48, 2, 60)
           data == PosSample(900 + i, n, 0) @@ [scale |-> [p |-> sc * (IF ty = "f64" THEN 70 ELSE 24)]] IN
       \A li \in LevQuick : \A ki \in 1..3 : \A fl \in {"geo", "harm"} :
            Emit(MeanCase(fl, ty, "ci", ki, li, data, TRUE, "base") @@ [aux |-> TRUE])
  \* irregular strictly positive samples: every value distinct, in no particular order
  /\ \A i \in 1..((ND + 2) \div 3) : \A fl \in {"geo", "harm"} : \A ty \in {"f64", "f32"} : \A li \in LevQuick : \A ki \in 1..3 :
       LET n == Pick(800 + i, 11, 3, 50)
           data == [rle |-> [j \in 1..n |-> <<V((Pick(800 + i, 100 + j, 1, 900) * 64) + j, -5), 1>>], order |-> "asc"] IN
       /\ Emit(MeanCase(fl, ty, "ci", ki, li, data, TRUE, "base") @@ [aux |-> TRUE])
       /\ Emit(MeanCase(fl, ty, "append", ki, li, data, FALSE, "style") @@ [aux |-> FALSE])
  \* strictly positive SUBNORMAL observations (about 2^-1050 in f64, 2^-132 in f32): still strictly positive data
  \* (geometric only: the reciprocals of subnormal numbers overflow)
  /\ \A i \in 1..2 : \A ty \in {"f64", "f32"} : \A fl \in {"geo"} : \A li \in {8, 12} : \A ki \in 1..3 :
       LET data == PosSample(950 + i, 12 + i, 0) @@ [scale |-> [p |-> IF ty = "f64" THEN -1060 ELSE -140]] IN
       Emit(MeanCase(fl, ty, "ci", ki, li, data, TRUE, "base") @@ [aux |-> TRUE, subnormal |-> TRUE])
  \* the value 1 itself (its logarithm and its reciprocal are special), and the smallest admissible sample
  /\ \A fl \in {"geo", "harm"} : \A ty \in {"f64", "f32"} : \A li \in {8, 12} : \A ki \in 1..3 :
       /\ Emit(MeanCase(fl, ty, "ci", ki, li, [rle |-> << <<V(1, -1), 1>>, <<V(1, 0), 2>>, <<V(2, 0), 1>>, <<V(4, 0), 1>> >>, order |-> "interleave"], TRUE, "base") @@ [aux |-> TRUE])
       /\ Emit(MeanCase(fl, ty, "append", ki, li, [rle |-> << <<V(1, 0), 1>>, <<V(3, 0), 1>> >>, order |-> "asc"], TRUE, "base") @@ [aux |-> TRUE])
  \* near-constant and wide samples
  /\ \A fl \in {"geo", "harm"} : \A ty \in {"f64", "f32"} : \A li \in Levs : \A ki \in 1..3 :
       /\ Emit(MeanCase(fl, ty, "ci", ki, li, [rle |-> << <<V(1000, 0), 9>>, <<V(1001, 0), 8>> >>, order |-> "asc"], TRUE, "base") @@ [aux |-> TRUE])
       /\ Emit(MeanCase(fl, ty, "ci", ki, li, [rle |-> << <<V(1, 0), 1>>, <<V(100, 0), 1>> >>, order |-> "asc"], TRUE, "base") @@ [aux |-> TRUE])
       /\ Emit(MeanCase(fl, ty, "ci", ki, li, [rle |-> << <<V(3, 0), 1>>, <<V(5, 0), 1>>, <<V(9, 0), 1>>, <<V(4, 0), 1>> >>, order |-> "asc"], TRUE, "base") @@ [aux |-> TRUE])

\* ---- C09: long merge histories on data whose sums round (judged by the exact-statistics judge) ----
FoldStyles == <<"ci", "lfold1", "rfold1", "rfold1_assign", "lfold7", "rfold7", "tree", "extend4">>
FoldData(k, n) ==
    CASE k = 1 -> [rle |-> << <<V(-13421773, -27), n \div 2>>, <<V(-11184811, -25), n \div 4>>, <<V(-3, -3), n - (n \div 2) - (n \div 4)>> >>,
                   order |-> "interleave"]                                          \* all negative (~ -0.1, -0.33, -0.375)
      [] k = 2 -> [rle |-> << <<V(13421773, -27), n \div 2>>, <<V(11184811, -22), n \div 4>>, <<V(5, -1), n - (n \div 2) - (n \div 4)>> >>,
                   order |-> "interleave"]                                          \* all positive, mixed magnitudes
      [] k = 4 -> [rle |-> << <<V(13421773, -27), n \div 2>>, <<V(-13421773, -27), n \div 2>> >>,
                   order |-> "interleave"]                                          \* +x, -x alternating: partial states whose sum is exactly 0
      [] OTHER -> [rle |-> << <<V(-13421773, -24), n \div 3>>, <<V(11184811, -25), n \div 3>>, <<V(-7, 0), n - 2 * (n \div 3)>> >>,
                   order |-> "interleave"]                                          \* mixed signs, negative total
FoldNs == IF Thorough THEN <<1000, 8192, 20000, 300000, 1000000>> ELSE <<1000, 8192, 20000, 300000>>
C09FoldPart(d) ==
  /\ \A k \in 1..4 : \A ni \in DOMAIN FoldNs : \A ty \in {"f64", "f32"} : \A li \in {8, 14} : \A ki \in 1..3 :
       \A si \in DOMAIN FoldStyles :
          Emit(MeanCase("arith", ty, FoldStyles[si], ki, li, FoldData(k, FoldNs[ni]), si = 1, IF si = 1 THEN "base" ELSE "merge"))
  \* the same histories on data of tiny magnitude (2^-60 in f64, 2^-30 in f32: every partial sum is far below the epsilon
  \* of the type, none is zero) and of large magnitude (2^40 / 2^20)
  /\ \A k \in 1..4 : \A ni \in 1..2 : \A ty \in {"f64", "f32"} : \A sg \in {-1, 1} : \A ki \in 1..3 :
       LET sc == IF sg = -1 THEN (IF ty = "f32" THEN -30 ELSE -60) ELSE (IF ty = "f32" THEN 20 ELSE 40) IN
       \A si \in DOMAIN FoldStyles :
          Emit(MeanCase("arith", ty, FoldStyles[si], ki, 8, FoldData(k, FoldNs[ni]) @@ [scale |-> [p |-> sc]], si = 1,
                        IF si = 1 THEN "base" ELSE "merge") @@ [magnitude |-> IF sg = -1 THEN "tiny" ELSE "large"])
  \* more observations than a f32 can count (2^24 + 2^20 + 1), in ONE state and as merged partial states
  /\ \A ki \in 1..3 : \A si \in {1, 5, 7, 8} :
       LET n == 17825793
           data == [rle |-> << <<V(-3, -1), n \div 3>>, <<V(5, 0), n \div 3>>, <<V(64, 0), n - 2 * (n \div 3)>> >>, order |-> "interleave"] IN
       Emit(MeanCase("arith", "f32", IF si = 1 THEN "extend" ELSE FoldStyles[si], ki, 8, data, si = 1, IF si = 1 THEN "base" ELSE "merge")
            @@ [beyond_f32_count |-> TRUE])

Next == /\ ~done
        /\ done' = TRUE
        /\ CASE Part = "c01" -> (C01Part(done) /\ BigCountPart(done)) [] Part = "c06" -> (C06Part(done) /\ UnbalancedUnpaired(done) /\ C06Extreme(done) /\ C06OffGrid(done) /\ OverflowUnpaired(done))
             [] Part = "c04" -> (C04Part(done) /\ ScaledUnpaired(done) /\ UnbalancedUnpaired(done) /\ OverflowUnpaired(done)) [] Part = "c05" -> C05Part(done)
             [] Part = "designed" -> DesignedPart(done) [] Part = "c09fold" -> C09FoldPart(done)
Spec == Init /\ [][Next]_done
=============================================================================
