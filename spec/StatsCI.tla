------------------------------- MODULE StatsCI -------------------------------
(***************************************************************************)
(* stats-ci : top-level index of the specification.                        *)
(*                                                                         *)
(* The crate is a sequential library.  A client SESSION holds              *)
(*   - immutable values  : Confidence, Interval<T>                         *)
(*   - registers         : KahanSum<F>; the incremental statistics         *)
(*                         Arithmetic / Geometric / Harmonic<F>,           *)
(*                         Paired / Unpaired<F>, proportion::Stats,        *)
(*                         quantile::Stats                                 *)
(* and performs one public call at a time.  Every public call is an action *)
(* of one of the component modules instantiated below; its OUTCOME         *)
(* (Ok value / error variant / documented panic) is constrained by a judge *)
(* of the corresponding trace module, which evaluates the listed           *)
(* properties on every event recorded from the real crate.                 *)
(*                                                                         *)
(*   component        model-level check   generator        trace validator *)
(*   ---------------  ------------------  ---------------  --------------- *)
(*   Interval         MC_Interval         Gen_Interval,    Trace_Interval  *)
(*                                        Gen_Approx                       *)
(*   Confidence       MC_Confidence       Gen_Confidence   Trace_Confidence*)
(*   Accum            MC_Accum            Gen_Accum        Trace_Accum     *)
(*   Kahan            MC_Kahan            Gen_Kahan        Trace_Kahan     *)
(*   Proportion       MC_Tables           Gen_Proportion   Trace_Proportion*)
(*   Binomial         MC_Binomial         Gen_Coverage     Trace_Coverage  *)
(*   Quantile         -                   Gen_Quantile     Trace_Quantile  *)
(*   Mean             MC_Tables           Gen_Mean         Trace_Mean      *)
(*   (relations)      -                   Gen_Relate       Trace_Relate    *)
(*   Totality         -                   Gen_Totality     Trace_Totality  *)
(*   (feature sets)   -                   Gen_Build        Trace_Build     *)
(*   BigNum, Float    MC_BigNum           exact arithmetic kernel          *)
(*   RefTables        MC_Tables           uninterpreted t / normal quantile*)
(*   TClosed          MC_TCert            even-dof t distribution function *)
(*                                        in closed (algebraic) form: the  *)
(*                                        even rows of the table are       *)
(*                                        certified, and critical values   *)
(*                                        at ANY float level are decided   *)
(*                                        (Trace_Mean!ExtremeFailed)       *)
(*                                                                         *)
(* Cross-cutting clauses of the trace validators:                          *)
(*   *.history_independent   a call repeated on a fresh thread returns the *)
(*                           same bits (stage `hist`: call sequences on    *)
(*                           one thread that a coarse memo key confuses)   *)
(*   populations a * 2^p     Proportion!BoundOKD, Trace_Quantile!JudgeBig: *)
(*                           the same judges over dyadic counts            *)
(*   *.event_not_admitted_by_the_specification   a recorded event the      *)
(*                           validator cannot evaluate rejects the trace   *)
(*                                                                         *)
(* Property index (clause prefixes printed by the validators):             *)
(*   C01 Trace_Mean!ArithFailed           C11 Trace_Totality!Failed        *)
(*   C02 Trace_Proportion!C02Failed       C12 Trace_Coverage (PointOK,     *)
(*   C03 Trace_Quantile!Failed                 MeanOK over exact sums)     *)
(*   C04 Trace_Mean!PairedFailed,         C13 IntervalSession!Failed       *)
(*       UnpairedFailed                   C14 IntervalSession!Failed       *)
(*   C05 Trace_Mean!GeoFailed, HarmFailed C15 IntervalSession!Failed       *)
(*       + Trace_Accum (rejection)        C16 Trace_Relate!C16Failed       *)
(*   C06 Trace_Mean!ArithFailed on probes C17 Trace_Proportion!C17Row, ..  *)
(*   C07 IntervalSession!Failed           C18 Trace_Confidence!Failed      *)
(*   C08 MC_Kahan!ErrBound, Trace_Kahan   C19 IntervalSession!Failed,      *)
(*   C09 MC_Accum!Refinement, Trace_Accum      Trace_Interval!ApproxExact  *)
(*   C10 Trace_Relate!C10Failed           C20 Trace_Build, Trace_Accum     *)
(*                                                                         *)
(* This module instantiates the component modules over one small bounded   *)
(* carrier and restates, as named theorems-to-check, the model-level       *)
(* content of the properties that is independent of any execution.  It is  *)
(* checked by SANY/TLC through StatsCI.cfg (a finite evaluation).          *)
(***************************************************************************)
EXTENDS Integers, Sequences, FiniteSets, Bags, TLC

\* ---- value algebras over a bounded carrier ---------------------------------------------------
Bnd == 0..3
Win == -1..4
IV == INSTANCE IntervalSession WITH B <- Bnd, W <- Win, Scalars <- -2..2

LevelOK(l) == l \in 1..3                \* level classes 0 < 1..3 < 4
LevelCmp(a, b) == IF a < b THEN "lt" ELSE IF a > b THEN "gt" ELSE "eq"
CF == INSTANCE Confidence WITH Valid <- LevelOK, LCmp <- LevelCmp

\* ---- state machines -------------------------------------------------------------------------
AC == INSTANCE Accum
KH == INSTANCE Kahan
TT == INSTANCE Totality

\* ---- model-level statements of the properties (quantified over the bounded carrier) ---------
Ivs == IV!I

P_C07 == \A a \in Ivs, b \in Ivs :
            /\ IV!IntersectsRef(a, b) = IV!IntersectsDef(a, b, Win)
            /\ IV!IntersectsRef(a, b) = IV!IntersectsRef(b, a)
            /\ IV!IncludesRef(a, b) = IV!IncludesDef(a, b, Win)
            /\ \A x \in Win : IV!RangeContains(IV!RangeBoundOf(a, "start"), IV!RangeBoundOf(a, "end"), x)
                                = IV!ContainsDef(a, x)

P_C13 == \A a \in Ivs : \A op \in IV!ScalarOps, k \in -2..2 :
            IV!ScalarAdmissible(op, a, k) => IV!ScalarOK(op, a, k, IV!ScalarRef(op, a, k), -12..12)

P_C14 == \A lo \in Bnd, hi \in Bnd :
            /\ (IV!NewOutcome(lo, hi).tag = "ok") = (lo <= hi)
            /\ IV!FromOptPair(FALSE, lo, FALSE, hi).variant = "EmptyInterval"

P_C15 == \A a \in Ivs, b \in Ivs, c \in Ivs :
            /\ IV!CmpRef(a, b) = IV!CmpDef(a, b, Win)
            /\ (IV!CmpRef(a, b) = "eq") = IV!IvEq(a, b)
            /\ (IV!CmpRef(a, b) = "lt") = (IV!CmpRef(b, a) = "gt")
            /\ (IV!CmpRef(a, b) = "lt" /\ IV!CmpRef(b, c) = "lt") => IV!CmpRef(a, c) = "lt"

Confs == {CF!Conf(k, l) : k \in CF!CKinds, l \in 1..3}
P_C18 == /\ \A p \in CF!Paths, l \in 0..4 : (CF!MakeOutcome(p, l).tag = "ok") = LevelOK(l)
         /\ \A c \in Confs, d \in Confs :
              /\ CF!Flipped(CF!Flipped(c)) = c
              /\ (CF!CCmp(c, d) # "none") = (c.kind = d.kind)
              /\ CF!CEq(c, d) = (c = d)

\* C09: merging is bag union; the sufficient statistics are a homomorphism
Bags3 == {AC!BagOfSeq(s) : s \in {<<>>, <<1>>, <<1, 1>>, <<1, 2>>, <<2, 3, 3>>}}
P_C09 == \A x \in Bags3, y \in Bags3 :
            /\ AC!Stat(x (+) y) = AC!StatAdd(AC!Stat(x), AC!Stat(y))
            /\ x (+) AC!EmptyBag = x

\* C08: one step of the compensated register captures the rounding error exactly when the
\* running sum dominates the addend (Fast2Sum), the reason the error does not grow with n
P_C08 == \A s \in {16777216, 16777218, 33554432}, x \in {1, 3, -1, 5} :
            LET k == KH!KahanAdd([s |-> s, c |-> 0], x) IN k.s - k.c = s + x

\* C11: the decision table is total and never allows Ok for non-finite input
P_C11 == \A fl \in {"arith", "geo", "harm"} :
            /\ ~TT!AllowedMean(fl, <<TT!Num(1), [c |-> "nan"]>>).ok
            /\ TT!AllowedMean(fl, <<>>).errs = {"TooFewSamples"}
            /\ TT!AllowedMean(fl, <<TT!Num(3), TT!Num(5)>>) = [ok |-> TRUE, errs |-> {}]

\* C05 / C09: a bulk call that meets a rejected value reports that value and leaves the admissible PREFIX (or, the admitted
\* alternative, nothing) in the register - never the values that FOLLOW the rejected one; a single rejected append is a no-op
P_C05 == \A fl \in {"geo", "harm"} :
            LET h0  == [r \in {1} |-> AC!EmptyReg]
                act == [a |-> "extend", r |-> 1, xs |-> <<3, -1, 2>>]
                one == [a |-> "append", r |-> 1, v |-> 0]
            IN /\ AC!Outcome(fl, h0, act) = [tag |-> "err", variant |-> "NonPositiveValue", v |-> -1]
               /\ AC!Step(fl, h0, act)[1].a = AC!BagOfSeq(<<3>>)
               /\ AC!StepAlt(fl, h0, act) = h0
               /\ AC!Step(fl, h0, one) = h0

VARIABLE tick
StatsInit == tick = 0
StatsNext == tick' = tick
ASSUME P_C07 /\ P_C13 /\ P_C14 /\ P_C15 /\ P_C18 /\ P_C09 /\ P_C08 /\ P_C11 /\ P_C05
=============================================================================
