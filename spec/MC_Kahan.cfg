SPECIFICATION Spec
INVARIANTS
  ErrBound
  Representable
CHECK_DEADLOCK FALSE
