------------------------------- MODULE TClosed -------------------------------
(***************************************************************************)
(* The Student-t distribution function at EVEN degrees of freedom is       *)
(* algebraic (see MC_TCert):  with T = t^2, D = nu + T, M = nu/2 - 1,      *)
(*   (2 F(t) - 1)^2 = T P(T)^2 / (16^M D^(2M+1)),                          *)
(*   P(T) = SUM_j C(2j,j) nu^j (4 D)^(M-j).                                *)
(* GSignDy(nu, T, A) is the sign of  T P^2 - A^2 16^M D^(2M+1)  for a      *)
(* dyadic target A = |2 F - 1|: a table-free, exact oracle for the         *)
(* critical value at ANY level (the level actually used is a float, hence  *)
(* dyadic), used for levels far outside the tabulated grid.                *)
(***************************************************************************)
EXTENDS BigNum, Binomial

RECURSIVE HornerT(_, _, _, _, _, _, _)
HornerT(j, M, H, b, nup, nu, D4) ==
    IF j > M THEN H
    ELSE LET b2   == BigDivFloor(BigMulInt(b, 2 * (2 * j - 1)), BigOfInt(j))      \* C(2j, j), exact
             nup2 == BigMulInt(nup, nu)
         IN HornerT(j + 1, M, DyAdd(DyMul(H, D4), Dy(BigMul(b2, nup2), 0)), b2, nup2, nu, D4)

DyPowT(d, n) == Dy(BigPow(DyB(d), n), DyE(d) * n)

GSignDy(nu, T, A) ==
    LET M  == (nu \div 2) - 1
        D  == DyAdd(DyOfInt(nu), T)
        P  == HornerT(1, M, DyOfInt(1), BigOfInt(1), BigOfInt(1), nu, DyMulInt(D, 4))
        l  == DyMul(T, DySq(P))
        r  == DyMul(DyMul(DySq(A), Dy(BigPow2(4 * M), 0)), DyPowT(D, 2 * M + 1))
    IN DyCmp(l, r)

\* c (given through T = c^2, c >= 0) is the quantile with |2F - 1| = A, up to a relative 2^-tol on c and an absolute
\* 2^-51 on the probability (the argument (1+L)/2 of the quantile function is itself a rounded float: four units in the
\* last place of 1, which dominates at tails of 10^-9 and beyond)
ClosedFormOK(nu, T, A, tol) ==
    LET lo == DyMul(T, DySq(DySub(DyOfInt(1), Dy(BigOfInt(1), -tol))))
        hi == DyMul(T, DySq(DyAdd(DyOfInt(1), Dy(BigOfInt(1), -tol))))
        dl == Dy(BigOfInt(1), -51)
        Am == IF DyLe(A, dl) THEN DyZero ELSE DySub(A, dl)
    IN GSignDy(nu, lo, DyAdd(A, dl)) <= 0 /\ GSignDy(nu, hi, Am) >= 0
=============================================================================
