--------------------------------- MODULE Rng ---------------------------------
(* Deterministic pseudo-random choices for the generators: a pure function   *)
(* of (seed, i, j), so that a value referenced several times is the same     *)
(* value and a run is reproducible from VERIF_SEED alone.                    *)
EXTENDS Integers, IOUtils
Seed == IF "SEED" \in DOMAIN IOEnv THEN atoi(IOEnv.SEED) ELSE 1
Mix(x) == ((x % 65537) * 75 + 74) % 65537
Hash3(i, j) == Mix(Mix((Mix(Mix((Seed % 65521) + 1) + (i % 1000003)) * 3) + (j % 1000003)) + 17)
\* uniform-ish pick in lo..hi (hi - lo < 2^30)
Pick(i, j, lo, hi) == lo + (((Hash3(i, j) * 16384) + (Hash3(j + 7, i + 13) % 16384)) % (hi - lo + 1))
=============================================================================
