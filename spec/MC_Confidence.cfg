SPECIFICATION Spec
INVARIANTS
  ValidByConstruction
  Laws
  OutcomeLaws
CHECK_DEADLOCK FALSE
