------------------------------ MODULE Interval ------------------------------
(***************************************************************************)
(* Specification of stats_ci::Interval<T> as a value algebra over a        *)
(* totally ordered carrier.  The carrier of the specification is the       *)
(* integers: the conformance harness maps integers to concrete element     *)
(* types (i32, u8, f64 incl. -0.0/+0.0, char, String) by fixed strictly    *)
(* monotone embeddings, so every statement below is a statement about the  *)
(* order structure only - which is all `Interval<T: PartialOrd>` may use.  *)
(*                                                                         *)
(* An interval value is a record                                           *)
(*     [k |-> "two", lo |-> a, hi |-> b]     the closed set [a, b]         *)
(*     [k |-> "up",  lo |-> a]               the closed set [a, +oo)       *)
(*     [k |-> "low", hi |-> b]               the closed set (-oo, b]       *)
(* (code: Interval::TwoSided / UpperOneSided / LowerOneSided).             *)
(*                                                                         *)
(* Every operation is given twice:                                         *)
(*   - a DEFINITION in terms of the denoted set (what the properties       *)
(*     C07, C13, C14, C15 state), quantifying over a finite window of the  *)
(*     carrier that is wide enough to be exact for the bounded model, and  *)
(*   - a REFERENCE closed form (what a correct implementation computes).   *)
(* MC_Interval checks "reference = definition" exhaustively on the bounded *)
(* model; the trace validator judges the implementation with the           *)
(* definitions.                                                            *)
(***************************************************************************)
EXTENDS Integers, Sequences, FiniteSets

Two(a, b) == [k |-> "two", lo |-> a, hi |-> b]
Up(a)     == [k |-> "up",  lo |-> a]
Low(b)    == [k |-> "low", hi |-> b]

Kinds == {"two", "up", "low"}

HasLo(iv) == iv.k # "low"          \* bounded below
HasHi(iv) == iv.k # "up"           \* bounded above

\* Structural equality that never touches a missing field.
IvEq(a, b) == /\ a.k = b.k
              /\ HasLo(a) => a.lo = b.lo
              /\ HasHi(a) => a.hi = b.hi

WellFormed(iv) == iv.k = "two" => iv.lo <= iv.hi

\* All well-formed intervals with bounds in the set B.
IntervalsOver(B) == {iv \in [k : {"two"}, lo : B, hi : B] : iv.lo <= iv.hi}
                      \cup {Up(a) : a \in B} \cup {Low(b) : b \in B}

\* All two-sided records, including inverted ones (inputs of constructors).
RawTwo(B) == [k : {"two"}, lo : B, hi : B]

-----------------------------------------------------------------------------
(* Denotation *)

InDen(x, iv) == CASE iv.k = "two" -> iv.lo <= x /\ x <= iv.hi
                  [] iv.k = "up"  -> iv.lo <= x
                  [] iv.k = "low" -> x <= iv.hi

\* Members of iv inside a finite window W of the carrier.
Members(iv, W) == {x \in W : InDen(x, iv)}

-----------------------------------------------------------------------------
(* C07 - predicates as set relations.  W must contain every bound that      *)
(* occurs plus one point beyond each end ("outer witnesses"): then the      *)
(* finite quantification is exact for unbounded sides as well.              *)

ContainsDef(iv, x)        == InDen(x, iv)
IntersectsDef(a, b, W)    == \E x \in W : InDen(x, a) /\ InDen(x, b)
IncludesDef(a, b, W)      == \A x \in W : InDen(x, b) => InDen(x, a)     \* a superset of b
IsIncludedInDef(a, b, W)  == IncludesDef(b, a, W)

\* Reference closed forms.
IntersectsRef(a, b) ==
    CASE a.k = "up"  /\ b.k = "up"  -> TRUE
      [] a.k = "low" /\ b.k = "low" -> TRUE
      [] a.k = "up"  /\ b.k = "low" -> a.lo <= b.hi
      [] a.k = "low" /\ b.k = "up"  -> b.lo <= a.hi
      [] a.k = "up"  /\ b.k = "two" -> a.lo <= b.hi
      [] a.k = "two" /\ b.k = "up"  -> b.lo <= a.hi
      [] a.k = "low" /\ b.k = "two" -> b.lo <= a.hi
      [] a.k = "two" /\ b.k = "low" -> a.lo <= b.hi
      [] a.k = "two" /\ b.k = "two" -> a.lo <= b.hi /\ b.lo <= a.hi

IncludesRef(a, b) ==
    CASE a.k = "up"  /\ b.k = "up"  -> a.lo <= b.lo
      [] a.k = "low" /\ b.k = "low" -> b.hi <= a.hi
      [] a.k = "up"  /\ b.k = "two" -> a.lo <= b.lo
      [] a.k = "low" /\ b.k = "two" -> b.hi <= a.hi
      [] a.k = "two" /\ b.k = "two" -> a.lo <= b.lo /\ b.hi <= a.hi
      [] OTHER -> FALSE

\* The view through core::ops::RangeBounds: the interval must denote the
\* same set, i.e. both finite ends are *included*.
RangeBoundOf(iv, side) ==
    IF side = "start"
    THEN IF HasLo(iv) THEN [b |-> "included", v |-> iv.lo] ELSE [b |-> "unbounded"]
    ELSE IF HasHi(iv) THEN [b |-> "included", v |-> iv.hi] ELSE [b |-> "unbounded"]

\* Membership as computed by RangeBounds::contains from two bounds.
RangeContains(sb, eb, x) ==
    /\ CASE sb.b = "included" -> sb.v <= x
         [] sb.b = "excluded" -> sb.v < x
         [] sb.b = "unbounded" -> TRUE
    /\ CASE eb.b = "included" -> x <= eb.v
         [] eb.b = "excluded" -> x < eb.v
         [] eb.b = "unbounded" -> TRUE

-----------------------------------------------------------------------------
(* C15 - the order on intervals *)

\* a < b  iff  a # b and every member of a is <= every member of b.
LtDef(a, b, W) == /\ ~IvEq(a, b)
                  /\ \A x \in W, y \in W : (InDen(x, a) /\ InDen(y, b)) => x <= y

CmpDef(a, b, W) == IF IvEq(a, b) THEN "eq"
                   ELSE IF LtDef(a, b, W) THEN "lt"
                   ELSE IF LtDef(b, a, W) THEN "gt"
                   ELSE "none"

CmpRef(a, b) ==
    IF IvEq(a, b) THEN "eq"
    ELSE IF HasLo(a) /\ HasHi(b) /\ a.lo >= b.hi THEN "gt"
    ELSE IF HasHi(a) /\ HasLo(b) /\ b.lo >= a.hi THEN "lt"
    ELSE "none"

\* What the comparison operators must return given the partial_cmp result.
OpsOfCmp(c) == [lt |-> c = "lt", le |-> c \in {"lt", "eq"},
                gt |-> c = "gt", ge |-> c \in {"gt", "eq"}, eq |-> c = "eq"]

-----------------------------------------------------------------------------
(* C14 - construction, accessors, conversions *)

\* Outcome of a fallible constructor given raw bounds.
NewOutcome(lo, hi) == IF lo <= hi THEN [tag |-> "ok", iv |-> Two(lo, hi)]
                      ELSE [tag |-> "err", variant |-> "InvalidBounds"]

\* Option-pair conversion; "none" marks an absent side.
FromOptPair(haslo, lo, hashi, hi) ==
    CASE haslo /\ hashi   -> NewOutcome(lo, hi)
      [] haslo /\ ~hashi  -> [tag |-> "ok", iv |-> Up(lo)]
      [] ~haslo /\ hashi  -> [tag |-> "ok", iv |-> Low(hi)]
      [] OTHER            -> [tag |-> "err", variant |-> "EmptyInterval"]

\* The accessor table.  A missing side is reported as "none" by the option
\* accessors and as the type's extreme stand-in ("min"/"max", i.e. MIN/MAX
\* for integers and -inf/+inf for floats) by the projections.
Observation(iv) ==
    [ is_two_sided  |-> iv.k = "two",
      is_one_sided  |-> iv.k # "two",
      is_upper      |-> iv.k = "up",
      is_lower      |-> iv.k = "low",
      is_degenerate |-> iv.k = "two" /\ iv.lo = iv.hi,
      has_low       |-> HasLo(iv),
      has_high      |-> HasHi(iv),
      has_width     |-> iv.k = "two" ]

-----------------------------------------------------------------------------
(* C13 - arithmetic.  Scalar operations are given as monotone / antitone    *)
(* maps of the carrier; the image of an interval under such a map is an     *)
(* interval of the same (monotone) or the mirrored (antitone) kind.         *)

Flip(k) == CASE k = "up" -> "low" [] k = "low" -> "up" [] OTHER -> "two"

\* Rust integer division truncates towards zero.
TruncDiv(x, k) == IF (x >= 0) = (k > 0) THEN (IF x >= 0 THEN x \div k ELSE (-x) \div (-k))
                  ELSE -((IF x >= 0 THEN x ELSE -x) \div (IF k >= 0 THEN k ELSE -k))

Apply(op, x, k) == CASE op = "add" -> x + k
                     [] op = "sub" -> x - k
                     [] op = "mul" -> x * k
                     [] op = "div" -> TruncDiv(x, k)
                     [] op = "div_s4" -> (4 * x) \div k    \* exact float division, result scaled by 4 (k | 4)
                     [] op = "neg" -> -x

\* Direction of the map x |-> Apply(op, x, k):  1 monotone, -1 antitone, 0 constant.
Direction(op, k) == CASE op \in {"add", "sub"} -> 1
                      [] op = "neg" -> -1
                      [] op \in {"mul", "div", "div_s4"} -> IF k > 0 THEN 1 ELSE IF k < 0 THEN -1 ELSE 0

\* Reference closed form of the image (k = 0 multiplier only on two-sided).
ScalarRef(op, a, k) ==
    LET d == Direction(op, k)
        f(x) == Apply(op, x, k)
    IN CASE a.k = "two" -> IF d >= 0 THEN Two(f(a.lo), f(a.hi)) ELSE Two(f(a.hi), f(a.lo))
         [] a.k = "up"  -> IF d > 0 THEN Up(f(a.lo)) ELSE Low(f(a.lo))
         [] a.k = "low" -> IF d > 0 THEN Low(f(a.hi)) ELSE Up(f(a.hi))

\* The property, as a predicate on an observed result r.
ScalarSound(op, a, k, r, W) == \A x \in W : InDen(x, a) => InDen(Apply(op, x, k), r)
ScalarTight(op, a, k, r, W) ==
    /\ HasLo(r) => \E x \in W : InDen(x, a) /\ Apply(op, x, k) = r.lo
    /\ HasHi(r) => \E x \in W : InDen(x, a) /\ Apply(op, x, k) = r.hi
ScalarKindOK(op, a, k, r) ==
    r.k = (IF Direction(op, k) >= 0 THEN a.k ELSE Flip(a.k))
ScalarOK(op, a, k, r, W) == /\ WellFormed(r)
                            /\ ScalarKindOK(op, a, k, r)
                            /\ ScalarSound(op, a, k, r, W)
                            /\ ScalarTight(op, a, k, r, W)

\* Interval (+|-) interval.  The image {x op y} is unbounded above iff ...
BinApply(op, x, y) == IF op = "add" THEN x + y ELSE x - y
\* for "sub" the second operand acts through its mirror image
EffKind(op, b) == IF op = "add" THEN b.k ELSE Flip(b.k)
\* documented panic: the image would be the whole line
BinPanics(op, a, b) == {a.k, EffKind(op, b)} = {"up", "low"}
BinKind(op, a, b) == IF a.k = "two" THEN EffKind(op, b)
                     ELSE a.k      \* compatible => EffKind(op,b) \in {"two", a.k}
BinRef(op, a, b) ==
    LET kk == BinKind(op, a, b)
        lo == IF op = "add" THEN a.lo + b.lo ELSE a.lo - b.hi
        hi == IF op = "add" THEN a.hi + b.hi ELSE a.hi - b.lo
    IN CASE kk = "two" -> Two(lo, hi) [] kk = "up" -> Up(lo) [] kk = "low" -> Low(hi)
BinSound(op, a, b, r, W) ==
    \A x \in W, y \in W : (InDen(x, a) /\ InDen(y, b)) => InDen(BinApply(op, x, y), r)
BinTight(op, a, b, r, W) ==
    /\ HasLo(r) => \E x \in W, y \in W : InDen(x, a) /\ InDen(y, b) /\ BinApply(op, x, y) = r.lo
    /\ HasHi(r) => \E x \in W, y \in W : InDen(x, a) /\ InDen(y, b) /\ BinApply(op, x, y) = r.hi
BinOK(op, a, b, r, W) == /\ WellFormed(r)
                         /\ r.k = BinKind(op, a, b)
                         /\ BinSound(op, a, b, r, W)
                         /\ BinTight(op, a, b, r, W)

\* relative_to: members x >= 0 of `a`, members r > 0 of `ref`, value (x - r) / r.
\* The carrier holds the values scaled by S (x = X / S); the result is also
\* scaled by S:  S * (x - r) / r  =  S * (X - R) / R, required to be integral
\* on the grids used (checked by RelExact).
RelExact(X, R, S)  == (S * (X - R)) % R = 0
RelValue(X, R, S)  == (S * (X - R)) \div R
\* documented panics of relative_to
RelPanics(a, ref)  == \/ (ref.k = "two" /\ (ref.lo = 0 \/ ref.hi = 0))
                      \/ (ref.k = "up" /\ ref.lo = 0) \/ (ref.k = "low" /\ ref.hi = 0)
                      \/ (a.k = "up" /\ ref.k = "up") \/ (a.k = "low" /\ ref.k = "low")
RelSound(a, ref, r, G, S) ==
    \A X \in G, R \in G : (InDen(X, a) /\ InDen(R, ref) /\ R > 0 /\ X >= 0)
                              => InDen(RelValue(X, R, S), r)
RelTight(a, ref, r, G, S) ==
    /\ HasLo(r) => \E X \in G, R \in G : InDen(X, a) /\ InDen(R, ref) /\ R > 0 /\ RelValue(X, R, S) = r.lo
    /\ HasHi(r) => \E X \in G, R \in G : InDen(X, a) /\ InDen(R, ref) /\ R > 0 /\ RelValue(X, R, S) = r.hi
RelRef(a, ref, S) ==
    CASE a.k = "two" /\ ref.k = "two" -> Two(RelValue(a.lo, ref.hi, S), RelValue(a.hi, ref.lo, S))
      [] HasHi(a) /\ HasLo(ref) /\ ~(a.k = "two" /\ ref.k = "two") -> Low(RelValue(a.hi, ref.lo, S))
      [] HasLo(a) /\ HasHi(ref) /\ ~(a.k = "two" /\ ref.k = "two") -> Up(RelValue(a.lo, ref.hi, S))

-----------------------------------------------------------------------------
(* C19 - approximate equality is kind-aware and bound-wise.  `near` is the  *)
(* element type's own comparison, supplied per bound pair.                  *)
ApproxDef(a, b, nearLo, nearHi) ==
    /\ a.k = b.k
    /\ HasLo(a) => nearLo
    /\ HasHi(a) => nearHi

\* Display: "[low, high]", "[low,->)", "(<-,high]" with the element's own formatting.
ShowRef(a, los, his) ==
    CASE a.k = "two" -> "[" \o los \o ", " \o his \o "]"
      [] a.k = "up"  -> "[" \o los \o ",->)"
      [] a.k = "low" -> "(<-," \o his \o "]"

=============================================================================
