------------------------------- MODULE Quantile -------------------------------
(***************************************************************************)
(* Quantile intervals (C03): order statistics at the Wilson ranks.         *)
(*   successes k = round-half-away(fl(q * n))     (the f64 product)        *)
(*   ranks      = min(floor(fl(p * n)), n - 1)    for p the lower / upper  *)
(*                Wilson bound of (n, k) - the crate's own proportion      *)
(*                interval, whose correctness is property C02              *)
(* Float operations are modelled exactly: a recorded product must be the   *)
(* correct rounding of the exact product, floors are taken on exact        *)
(* dyadics, and where the f64 product can round up to the next integer     *)
(* both ranks are admitted.                                                *)
(***************************************************************************)
EXTENDS Float, TLC

HalfDy == Dy(BigOfInt(1), -1)
\* floor(d + 1/2) for d >= 0 (round half away from zero), as a TLC integer
RoundHalfAway(d) == BigToInt(DyFloorNN(DyAdd(d, HalfDy)))
FloorInt(d)      == BigToInt(DyFloorNN(d))

\* x is the correctly rounded (binary64) value of the exact dyadic P >= 0:
\* |x - P| <= half an ulp of x, ulp(x) = 2^(bits(m) + e - 53) for x = m * 2^e
CorrectlyRounded(x, P) ==
    IF DySign(P) = 0 THEN FIsZero(x)
    ELSE /\ IsFin(x) /\ ~FIsZero(x)
         /\ LET ue == BigBits(DyB(FDy(x))) + x.e - 53
            IN DyLe(DyAbs(DySub(FDy(x), P)), Dy(BigOfInt(1), ue - 1))

Min2i(a, b) == IF a <= b THEN a ELSE b
\* ranks admitted for a float proportion p: floor(p * n) capped, plus the next integer when the
\* f64 product p * n can round up to it (within 2^-45 relative)
AdmRanks(p, n) ==
    LET P == DyMulInt(FDy(p), n)
        f == FloorInt(P)
        up == DyLe(DySub(DyOfInt(f + 1), P), DyShift(DyOfInt(f + 1), -45))
    IN {Min2i(f, n - 1)} \cup (IF up THEN {Min2i(f + 1, n - 1)} ELSE {})

\* Stats::index(q) for 0 <= q <= 1
IndexRef(q, n) == AdmRanks(q, n)

\* sorted sequence of a bag given as ascending run-length pairs <<key, count>>
RECURSIVE ExpandRle(_)
ExpandRle(rle) == IF rle = <<>> THEN <<>>
                  ELSE [i \in 1..rle[1][2] |-> rle[1][1]] \o ExpandRle(Tail(rle))
=============================================================================
