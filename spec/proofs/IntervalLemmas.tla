--------------------------- MODULE IntervalLemmas ---------------------------
(***************************************************************************)
(* Unbounded versions of the "reference closed form = set definition"      *)
(* lemmas of module Interval, over ALL integers (no window, no bound on    *)
(* the carrier), proved with TLAPS.  They remove the chain bound of        *)
(* MC_Interval at the model level for the predicates of C07 and the order  *)
(* of C15.  (Not verdict-bearing: the checks rely on TLC; this module is   *)
(* checked by tools/prove.sh.)                                             *)
(***************************************************************************)
EXTENDS Integers, TLAPS

\* intervals as records, as in module Interval
IsTwo(a) == a.k = "two" /\ a.lo \in Int /\ a.hi \in Int /\ a.lo <= a.hi
IsUp(a)  == a.k = "up"  /\ a.lo \in Int
IsLow(a) == a.k = "low" /\ a.hi \in Int
IsIv(a)  == IsTwo(a) \/ IsUp(a) \/ IsLow(a)

InDen(x, iv) == CASE iv.k = "two" -> iv.lo <= x /\ x <= iv.hi
                  [] iv.k = "up"  -> iv.lo <= x
                  [] iv.k = "low" -> x <= iv.hi

IntersectsDefU(a, b) == \E x \in Int : InDen(x, a) /\ InDen(x, b)
IncludesDefU(a, b)   == \A x \in Int : InDen(x, b) => InDen(x, a)

IntersectsRef(a, b) ==
    CASE a.k = "up"  /\ b.k = "up"  -> TRUE
      [] a.k = "low" /\ b.k = "low" -> TRUE
      [] a.k = "up"  /\ b.k = "low" -> a.lo <= b.hi
      [] a.k = "low" /\ b.k = "up"  -> b.lo <= a.hi
      [] a.k = "up"  /\ b.k = "two" -> a.lo <= b.hi
      [] a.k = "two" /\ b.k = "up"  -> b.lo <= a.hi
      [] a.k = "low" /\ b.k = "two" -> b.lo <= a.hi
      [] a.k = "two" /\ b.k = "low" -> a.lo <= b.hi
      [] a.k = "two" /\ b.k = "two" -> a.lo <= b.hi /\ b.lo <= a.hi

THEOREM TwoTwo ==
    ASSUME NEW a, NEW b, IsTwo(a), IsTwo(b)
    PROVE  IntersectsRef(a, b) <=> IntersectsDefU(a, b)
<1>1. ASSUME a.lo <= b.hi, b.lo <= a.hi PROVE IntersectsDefU(a, b)
   <2>1. CASE a.lo <= b.lo
         BY <1>1, <2>1 DEF IntersectsDefU, InDen, IsTwo
   <2>2. CASE b.lo <= a.lo
         BY <1>1, <2>2 DEF IntersectsDefU, InDen, IsTwo
   <2>3. QED BY <2>1, <2>2 DEF IsTwo
<1>2. ASSUME IntersectsDefU(a, b) PROVE a.lo <= b.hi /\ b.lo <= a.hi
   BY <1>2 DEF IntersectsDefU, InDen, IsTwo
<1>3. QED BY <1>1, <1>2 DEF IntersectsRef, IsTwo

THEOREM UpLow ==
    ASSUME NEW a, NEW b, IsUp(a), IsLow(b)
    PROVE  IntersectsRef(a, b) <=> IntersectsDefU(a, b)
<1>1. ASSUME a.lo <= b.hi PROVE IntersectsDefU(a, b)
   BY <1>1 DEF IntersectsDefU, InDen, IsUp, IsLow
<1>2. ASSUME IntersectsDefU(a, b) PROVE a.lo <= b.hi
   BY <1>2 DEF IntersectsDefU, InDen, IsUp, IsLow
<1>3. QED BY <1>1, <1>2 DEF IntersectsRef, IsUp, IsLow

THEOREM UpUp ==
    ASSUME NEW a, NEW b, IsUp(a), IsUp(b)
    PROVE  IntersectsRef(a, b) <=> IntersectsDefU(a, b)
<1>1. CASE a.lo <= b.lo
      BY <1>1 DEF IntersectsDefU, InDen, IsUp, IntersectsRef
<1>2. CASE b.lo <= a.lo
      BY <1>2 DEF IntersectsDefU, InDen, IsUp, IntersectsRef
<1>3. QED BY <1>1, <1>2 DEF IsUp

THEOREM LowTwo ==
    ASSUME NEW a, NEW b, IsLow(a), IsTwo(b)
    PROVE  IntersectsRef(a, b) <=> IntersectsDefU(a, b)
<1>1. ASSUME b.lo <= a.hi PROVE IntersectsDefU(a, b)
   BY <1>1 DEF IntersectsDefU, InDen, IsLow, IsTwo
<1>2. ASSUME IntersectsDefU(a, b) PROVE b.lo <= a.hi
   BY <1>2 DEF IntersectsDefU, InDen, IsLow, IsTwo
<1>3. QED BY <1>1, <1>2 DEF IntersectsRef, IsLow, IsTwo

THEOREM Symmetric ==
    ASSUME NEW a, NEW b
    PROVE  IntersectsDefU(a, b) <=> IntersectsDefU(b, a)
BY DEF IntersectsDefU

\* superset for two-sided intervals
THEOREM IncludesTwoTwo ==
    ASSUME NEW a, NEW b, IsTwo(a), IsTwo(b)
    PROVE  (a.lo <= b.lo /\ b.hi <= a.hi) <=> IncludesDefU(a, b)
<1>1. ASSUME a.lo <= b.lo, b.hi <= a.hi PROVE IncludesDefU(a, b)
   BY <1>1 DEF IncludesDefU, InDen, IsTwo
<1>2. ASSUME IncludesDefU(a, b) PROVE a.lo <= b.lo /\ b.hi <= a.hi
   <2>1. InDen(b.lo, b) /\ InDen(b.hi, b) BY DEF InDen, IsTwo
   <2>2. InDen(b.lo, a) /\ InDen(b.hi, a) BY <1>2, <2>1 DEF IncludesDefU, IsTwo
   <2>3. QED BY <2>2 DEF InDen, IsTwo
<1>3. QED BY <1>1, <1>2
-----------------------------------------------------------------------------
(* C15: the order.  a < b iff every member of a is <= every member of b (and a # b). *)
AllLeq(a, b) == \A x \in Int, y \in Int : (InDen(x, a) /\ InDen(y, b)) => x <= y

THEOREM OrderTwoTwo ==
    ASSUME NEW a, NEW b, IsTwo(a), IsTwo(b)
    PROVE  (a.hi <= b.lo) <=> AllLeq(a, b)
<1>1. ASSUME a.hi <= b.lo PROVE AllLeq(a, b)
   BY <1>1 DEF AllLeq, InDen, IsTwo
<1>2. ASSUME AllLeq(a, b) PROVE a.hi <= b.lo
   <2>1. InDen(a.hi, a) /\ InDen(b.lo, b) BY DEF InDen, IsTwo
   <2>2. QED BY <1>2, <2>1 DEF AllLeq, IsTwo
<1>3. QED BY <1>1, <1>2

THEOREM OrderLowUp ==
    ASSUME NEW a, NEW b, IsLow(a), IsUp(b)
    PROVE  (a.hi <= b.lo) <=> AllLeq(a, b)
<1>1. ASSUME a.hi <= b.lo PROVE AllLeq(a, b)
   BY <1>1 DEF AllLeq, InDen, IsLow, IsUp
<1>2. ASSUME AllLeq(a, b) PROVE a.hi <= b.lo
   <2>1. InDen(a.hi, a) /\ InDen(b.lo, b) BY DEF InDen, IsLow, IsUp
   <2>2. QED BY <1>2, <2>1 DEF AllLeq, IsLow, IsUp
<1>3. QED BY <1>1, <1>2

\* an interval unbounded above is never below anything
THEOREM UpNeverLess ==
    ASSUME NEW a, NEW b, IsUp(a), IsIv(b)
    PROVE  ~AllLeq(a, b)
<1>1. PICK y \in Int : InDen(y, b)
   BY DEF IsIv, IsTwo, IsUp, IsLow, InDen
<1>2. InDen(a.lo, a) /\ a.lo \in Int BY DEF InDen, IsUp
<1>3. CASE y < a.lo
      BY <1>1, <1>2, <1>3 DEF AllLeq
<1>4. CASE y >= a.lo
      <2>1. InDen(y + 1, a) /\ y + 1 \in Int BY <1>1, <1>4 DEF InDen, IsUp
      <2>2. ~(y + 1 <= y) BY <1>1
      <2>3. QED BY <1>1, <2>1, <2>2 DEF AllLeq
<1>5. QED BY <1>1, <1>2, <1>3, <1>4

THEOREM OrderTransitiveTwo ==
    ASSUME NEW a, NEW b, NEW c, IsTwo(a), IsTwo(b), IsTwo(c), a.hi <= b.lo, b.hi <= c.lo
    PROVE  a.hi <= c.lo
BY DEF IsTwo

-----------------------------------------------------------------------------
(* C13: scalar arithmetic - soundness and kind, for all integers. *)
Shift(a, k) == CASE a.k = "two" -> [k |-> "two", lo |-> a.lo + k, hi |-> a.hi + k]
                 [] a.k = "up"  -> [k |-> "up", lo |-> a.lo + k]
                 [] a.k = "low" -> [k |-> "low", hi |-> a.hi + k]
Negate(a)   == CASE a.k = "two" -> [k |-> "two", lo |-> -a.hi, hi |-> -a.lo]
                 [] a.k = "up"  -> [k |-> "low", hi |-> -a.lo]
                 [] a.k = "low" -> [k |-> "up", lo |-> -a.hi]

THEOREM ShiftSoundAndComplete ==
    ASSUME NEW a, IsIv(a), NEW k \in Int, NEW x \in Int
    PROVE  InDen(x, a) <=> InDen(x + k, Shift(a, k))
<1>1. CASE IsTwo(a) BY <1>1 DEF IsTwo, InDen, Shift
<1>2. CASE IsUp(a)  BY <1>2 DEF IsUp, InDen, Shift
<1>3. CASE IsLow(a) BY <1>3 DEF IsLow, InDen, Shift
<1>4. QED BY <1>1, <1>2, <1>3 DEF IsIv

THEOREM NegateSoundAndComplete ==
    ASSUME NEW a, IsIv(a), NEW x \in Int
    PROVE  InDen(x, a) <=> InDen(-x, Negate(a))
<1>1. CASE IsTwo(a) BY <1>1 DEF IsTwo, InDen, Negate
<1>2. CASE IsUp(a)  BY <1>2 DEF IsUp, InDen, Negate
<1>3. CASE IsLow(a) BY <1>3 DEF IsLow, InDen, Negate
<1>4. QED BY <1>1, <1>2, <1>3 DEF IsIv

THEOREM NegateWellFormed ==
    ASSUME NEW a, IsTwo(a)
    PROVE  Negate(a).lo <= Negate(a).hi
BY DEF IsTwo, Negate

\* interval + interval (two-sided): the image is exactly [a.lo + b.lo, a.hi + b.hi]
THEOREM AddTwoTwoSound ==
    ASSUME NEW a, NEW b, IsTwo(a), IsTwo(b), NEW x \in Int, NEW y \in Int, InDen(x, a), InDen(y, b)
    PROVE  a.lo + b.lo <= x + y /\ x + y <= a.hi + b.hi
BY DEF IsTwo, InDen
=============================================================================
