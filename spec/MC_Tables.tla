------------------------------ MODULE MC_Tables ------------------------------
(***************************************************************************)
(* Axioms of the reference tables, checked by TLC in exact arithmetic:     *)
(*  - rows are where the index arithmetic expects them, enclosures are     *)
(*    non-empty and narrower than 2^-100;                                  *)
(*  - sign = sign(p - 1/2); the quantile is increasing in the level;       *)
(*  - t quantiles decrease in nu (for p > 1/2) and dominate the normal     *)
(*    quantile; symmetric levels give opposite quantiles (one-sided L and  *)
(*    1-L where both are on the grid);                                     *)
(*  - closed forms: nu = 1 is not used; nu = 2: t^2 = 2 L^2 / (1 - L^2)    *)
(*    for two-sided level L (an exact, independent cross-check of table    *)
(*    and kernel).                                                         *)
(* One state per degrees-of-freedom row.                                   *)
(***************************************************************************)
EXTENDS RefTables, TLC

VARIABLE ni
Init == ni = 1
Next == ni < NNU /\ ni' = ni + 1
Spec == Init /\ [][Next]_ni

Kinds2 == {"two", "one"}
Width(enc) == DySub(enc[2], enc[1])
Narrow(enc) == DySign(Width(enc)) > 0 /\ DyLt(Width(enc), Dy(BigOfInt(1), -100))

RowsInPlace == \A k \in Kinds2, li \in 1..NLEV :
    LET r == TRowI(ni, k, li) IN r.ni = ni /\ r.ki = KindIdx(k) /\ r.li = li
Enclosures == \A k \in Kinds2, li \in 1..NLEV :
    /\ Narrow(TQ(NuOf(ni), k, li))
    /\ TRowI(ni, k, li).sg = ZRow(k, li).sg
    /\ (ni = 1 => Narrow(ZQ(k, li)))
\* sign(p - 1/2): two-sided always positive; one-sided by the level
Signs == \A li \in 1..NLEV :
    /\ ZRow("two", li).sg = 1
    /\ ZRow("one", li).sg = (IF LevelA(li) > 5000 THEN 1 ELSE IF LevelA(li) < 5000 THEN -1 ELSE 0)
MonotoneInLevel == \A k \in Kinds2, li \in 1..(NLEV - 1) :
    DyLt(TQ(NuOf(ni), k, li)[2], TQ(NuOf(ni), k, li + 1)[1])
\* |t_nu| > |z| and decreasing in nu (rows are sorted by nu)
DominatesNormal == \A k \in Kinds2, li \in 1..NLEV : ZRow(k, li).sg # 0 =>
    /\ DyLt(MagEnc(ZRow(k, li))[2], MagEnc(TRowI(ni, k, li))[1])
    /\ (ni > 1 => DyLt(MagEnc(TRowI(ni, k, li))[2], MagEnc(TRowI(ni - 1, k, li))[1]))
\* one-sided levels L and 1-L: opposite quantiles
Symmetric == \A li \in 1..NLEV, lj \in 1..NLEV : LevelA(li) + LevelA(lj) = 10000 =>
    /\ DyLe(DyNeg(TQ(NuOf(ni), "one", lj)[2]), TQ(NuOf(ni), "one", li)[2])
    /\ DyLe(TQ(NuOf(ni), "one", li)[1], DyNeg(TQ(NuOf(ni), "one", lj)[1]))
\* nu = 2, two-sided level L = a / 10^4:  t^2 = 2 a^2 / (10^8 - a^2)
ClosedFormNu2 == NuOf(ni) = 2 => \A li \in 1..NLEV :
    LET a   == LevelA(li)
        num == DyOfInt(2 * a * a)
        den == DyOfInt(100000000 - a * a)
        e   == TQ(2, "two", li)
    IN /\ DyLe(DyMul(DySq(e[1]), den), num)
       /\ DyLe(num, DyMul(DySq(e[2]), den))
\* the one-sided quantile at L equals the two-sided quantile at 2L-1 (where both on the grid)
OneTwoIdentity == \A li \in 1..NLEV, lj \in 1..NLEV : 2 * LevelA(li) - 10000 = LevelA(lj) =>
    /\ DyLe(TQ(NuOf(ni), "one", li)[1], TQ(NuOf(ni), "two", lj)[2])
    /\ DyLe(TQ(NuOf(ni), "two", lj)[1], TQ(NuOf(ni), "one", li)[2])
\* designed non-integer dof rows lie between the rows of the neighbouring integer dof
DesignedBracket == (ni = 1) => \A pi \in 1..NDesigned, k \in Kinds2, li \in 1..NLEV :
    LET nd == DesignedNu(pi)
        f  == BigToInt(BigDivFloor(nd[1], nd[2]))          \* floor(nu)
        x  == MagEnc(XRow(pi, k, li))
        r  == XRow(pi, k, li) IN
    /\ r.pi = pi /\ r.ki = KindIdx(k) /\ r.li = li
    /\ r.sg = ZRow(k, li).sg
    /\ (r.sg # 0) => /\ DyLt(MagEnc(TRow(f + 1, k, li))[2], x[1])
                     /\ DyLt(x[2], MagEnc(TRow(f, k, li))[1])
=============================================================================
