------------------------------ MODULE MC_TCert ------------------------------
(***************************************************************************)
(* Independent certification of the Student-t rows with EVEN degrees of    *)
(* freedom.  For even nu the distribution function is algebraic:           *)
(*                                                                         *)
(*   2 F(t) - 1 = x * SUM_{j=0}^{nu/2-1} C(2j,j)/4^j * (1 - x^2)^j ,       *)
(*   x = t / sqrt(nu + t^2).                                               *)
(*                                                                         *)
(* With T = t^2, D = nu + T, M = nu/2 - 1 and                              *)
(*   P(T) = SUM_j C(2j,j) nu^j (4 D)^(M-j)          (Horner, exact)        *)
(* the equation 2F - 1 = a reads  a^2 16^M D^(2M+1) = T P(T)^2, and the    *)
(* right-hand side over the left is increasing in T.  So a table row       *)
(* <<lo, hi>> encloses the true quantile iff                               *)
(*     G(lo^2) <= a^2 <= G(hi^2),   G(T) = T P^2 / (16^M D^(2M+1)),        *)
(* which TLC decides in exact dyadic arithmetic - no floating point, no    *)
(* series, nothing from the tool that generated the table.  a = L for a    *)
(* two-sided level L and |2L - 1| for a one-sided one.  Together with the  *)
(* monotonicity in nu checked by MC_Tables, every odd row is bracketed by  *)
(* two certified rows.  One state per table row; rows with odd nu or       *)
(* nu > TCERT_MAX are skipped.                                             *)
(***************************************************************************)
EXTENDS RefTables, Binomial, TLC

EnvInt(name, default) == IF name \in DOMAIN IOEnv THEN atoi(IOEnv[name]) ELSE default
CertMax == EnvInt("TCERT_MAX", 300)

VARIABLE ni
Init == ni = 1
Next == ni < NNU /\ ni' = ni + 1
Spec == Init /\ [][Next]_ni

\* Horner evaluation of P(T): H_0 = 1, H_j = H_{j-1} * 4D + C(2j,j) nu^j
RECURSIVE Horner(_, _, _, _, _, _, _)
Horner(j, M, H, b, nup, nu, D4) ==
    IF j > M THEN H
    ELSE LET b2   == BigDivFloor(BigMulInt(b, 2 * (2 * j - 1)), BigOfInt(j))      \* C(2j, j), exact
             nup2 == BigMulInt(nup, nu)
         IN Horner(j + 1, M, DyAdd(DyMul(H, D4), Dy(BigMul(b2, nup2), 0)), b2, nup2, nu, D4)

DyPowI(d, n) == Dy(BigPow(DyB(d), n), DyE(d) * n)

\* sign of  G(T) - a^2  with a = A / 10^4  (as the sign of  10^8 T P^2 - A^2 16^M D^(2M+1))
GSign(nu, T, A) ==
    LET M  == (nu \div 2) - 1
        D  == DyAdd(DyOfInt(nu), T)
        P  == Horner(1, M, DyOfInt(1), BigOfInt(1), BigOfInt(1), nu, DyMulInt(D, 4))
        l  == DyMul(DyMulInt(DyMulInt(T, 10000), 10000), DySq(P))
        r  == DyMul(Dy(BigMulInt(BigMulInt(BigPow2(4 * M), A), A), 0), DyPowI(D, 2 * M + 1))
    IN DyCmp(l, r)

AOf(k, li) == IF k = "two" THEN LevelA(li)
              ELSE LET d == 2 * LevelA(li) - 10000 IN IF d < 0 THEN -d ELSE d

Certifiable == NuOf(ni) % 2 = 0 /\ NuOf(ni) <= CertMax
EvenRowsCertified ==
    Certifiable => \A k \in {"two", "one"}, li \in 1..NLEV :
        LET m == MagEnc(TRowI(ni, k, li))
            A == AOf(k, li) IN
        IF A = 0 THEN DySign(m[1]) <= 0 /\ DySign(m[2]) >= 0
        ELSE /\ GSign(NuOf(ni), DySq(m[1]), A) <= 0
             /\ GSign(NuOf(ni), DySq(m[2]), A) >= 0
\* the check is not vacuous: an end moved across the true value by 2^-90 (relative) is refuted
Sensitive ==
    (Certifiable /\ NuOf(ni) \in {2, 4, 10, 30, 100}) => \A k \in {"two", "one"} : \A li \in {1, 12, NLEV} :
        LET m == MagEnc(TRowI(ni, k, li))
            A == AOf(k, li)
            up == DyAdd(m[1], DyMul(m[1], Dy(BigOfInt(1), -90)))       \* a lower end that is too high
            dn == DySub(m[2], DyMul(m[2], Dy(BigOfInt(1), -90))) IN    \* an upper end that is too low
        A # 0 => /\ GSign(NuOf(ni), DySq(up), A) > 0
                 /\ GSign(NuOf(ni), DySq(dn), A) < 0
=============================================================================
