------------------------------ MODULE Gen_Relate ------------------------------
(***************************************************************************)
(* Case generator for the relational properties.                           *)
(*  PART=c10 : for each of the seven interval producers and each input,    *)
(*             one group of calls over 3 kinds x 17 levels (kind order     *)
(*             two, upper, lower; ascending levels)                        *)
(*  PART=c16 : for arithmetic / paired / unpaired / geometric / harmonic:  *)
(*             groups of a base call and transformed calls - scaling by    *)
(*             2^k, negation (with the mirrored kind), shift, reordering   *)
(*             (all permutations for n <= 5, asc / desc / interleave /     *)
(*             seeded shuffles for long f32 streams)                       *)
(***************************************************************************)
EXTENDS RefTables, Rng, TLC, Sequences, Integers

EnvInt(name, default) == IF name \in DOMAIN IOEnv THEN atoi(IOEnv[name]) ELSE default
Part == IF "PART" \in DOMAIN IOEnv THEN IOEnv.PART ELSE "c10"
Thorough == IF "TIER" \in DOMAIN IOEnv THEN IOEnv.TIER = "thorough" ELSE FALSE
ND == EnvInt("REL_SETS", 6)
Emit(c) == PrintT("CASE " \o ToJson(c))
CKinds == <<"two", "upper", "lower">>
Conf(ki, li) == [kind |-> CKinds[ki], level |-> [dec |-> LevelDec(li)]]
V(n, p) == [n |-> n, p |-> p]

RandSample(i, n, off, p) ==
    LET q  == n \div 4
        c1 == Pick(i, 1, 0, q)  c2 == Pick(i, 2, 0, q)  c3 == Pick(i, 3, 0, q)  c4 == Pick(i, 4, 0, q)
        c5 == n - c1 - c2 - c3 - c4
    IN [rle |-> << <<V(off + Pick(i, 5, -1000, 1000), p), c1>>, <<V(off + Pick(i, 6, -1000, 1000), p), c2>>,
                   <<V(off + Pick(i, 7, -50, 50), p), c3>>, <<V(off - 977, p), c4>>, <<V(off + 1013, p), c5>> >>,
        order |-> "asc"]
\* strictly positive, never (nearly) constant: at least two of the three disjoint value ranges occur, so that the
\* log-space variance is well conditioned whatever the seed (a constant sample has no defined conditioning)
PosSample(i, n, p) ==
    LET q == n \div 3  c1 == 1 + Pick(i, 41, 0, q)  c2 == Pick(i, 42, 0, q)  c3 == n - c1 - c2
    IN [rle |-> << <<V(Pick(i, 43, 1, 400), p), c1>>, <<V(Pick(i, 44, 2300, 4000), p), c2>>, <<V(Pick(i, 45, 900, 1100), p), c3>> >>,
        order |-> "interleave"]

MeanCase(fl, ty, style, ki, li, data, first) ==
    [op |-> "mean.ci", fl |-> fl, ty |-> ty, style |-> style, conf |-> Conf(ki, li), li |-> li,
     data |-> data, first |-> first, grp |-> (IF Part \in {"c10seq", "c10extra"} THEN "c10" ELSE Part)]

TraitStyle(i) == <<"ops_mean", "ops", "ci", "ops_append">>[(i % 4) + 1]

VARIABLE done
Init == done = FALSE

\* ---- C10 ----------------------------------------------------------------------------------------
AllConfs(f(_, _, _)) == \A ki \in 1..3 : \A li \in 1..NLEV : f(ki, li, ki = 1 /\ li = 1)

C10Part(d) ==
  /\ \A i \in 1..ND : \A ty \in {"f64", "f32"} :
       LET n == Pick(i, 11, 2, 120)
           da == RandSample(i, n, 0, 0)
           dp == PosSample(i, n, 0)
           db == RandSample(900 + i, Pick(i, 12, 2, 60), 30, 0) IN
       \* (the entry point rotates with the sample: the inherent one-shot call, the StatisticsOps trait's one-shot call, and
       \*  a state fed and queried through the trait only - what code generic over `S: StatisticsOps<F>` reaches)
       /\ AllConfs(LAMBDA ki, li, f : Emit(MeanCase("arith", ty, TraitStyle(i + 2), ki, li, da, f)))
       /\ AllConfs(LAMBDA ki, li, f : Emit(MeanCase("geo", ty, TraitStyle(i + 1), ki, li, dp, f)))
       /\ AllConfs(LAMBDA ki, li, f : Emit(MeanCase("harm", ty, TraitStyle(i), ki, li, dp, f)))
       /\ AllConfs(LAMBDA ki, li, f : Emit(MeanCase("unpaired", ty, "ci", ki, li, da, f) @@ [datab |-> db]))
       /\ AllConfs(LAMBDA ki, li, f : Emit(MeanCase("paired", ty, "ci", ki, li,
                      [rle |-> [j \in 1..Pick(i, 13, 2, 40) |-> <<V(Pick(i, 200 + j, -300, 300), 0), 1>>], order |-> "asc"], f)
                      @@ [datab |-> [rle |-> [j \in 1..Pick(i, 13, 2, 40) |-> <<V(Pick(i, 300 + j, -300, 300), 0), 1>>], order |-> "asc"]]))
  \* harmonic data whose reciprocal-space interval reaches zero at high levels
  /\ \A ty \in {"f64", "f32"} :
       /\ AllConfs(LAMBDA ki, li, f : Emit(MeanCase("harm", ty, "ci", ki, li, [rle |-> << <<V(1, 0), 1>>, <<V(100, 0), 1>> >>, order |-> "asc"], f)))
       /\ AllConfs(LAMBDA ki, li, f : Emit(MeanCase("harm", ty, "ci", ki, li,
                      [rle |-> << <<V(3, 0), 2>>, <<V(50, 0), 3>>, <<V(281, 0), 5>>, <<V(9000, 0), 6>> >>, order |-> "interleave"], f)))
  \* samples beyond the t -> z switch (the normal branch has its own kind / level handling)
  /\ \A ty \in {"f64", "f32"} : \A n \in {100001, 250000} :
       LET big == [rle |-> << <<V(-3, -1), n \div 3>>, <<V(5, 0), n \div 3>>, <<V(64, 0), n - 2 * (n \div 3)>> >>, order |-> "interleave"]
           bigp == [rle |-> << <<V(3, -1), n \div 3>>, <<V(5, 0), n \div 3>>, <<V(64, 0), n - 2 * (n \div 3)>> >>, order |-> "interleave"] IN
       /\ AllConfs(LAMBDA ki, li, f : Emit(MeanCase("arith", ty, "extend", ki, li, big, f)))
       /\ AllConfs(LAMBDA ki, li, f : Emit(MeanCase("harm", ty, "extend", ki, li, bigp, f)))
       /\ (n = 100001) => AllConfs(LAMBDA ki, li, f : Emit(MeanCase("unpaired", ty, "ci", ki, li, big, f) @@ [datab |-> bigp]))
  \* proportions and quantiles
  /\ \A n \in (IF Thorough THEN 4..60 ELSE {4, 5, 9, 16, 30, 47, 60}) : \A k \in 2..(n - 2) : ((k * 7 + n) % 5 = 0 \/ Thorough) =>
       AllConfs(LAMBDA ki, li, f : Emit([op |-> "prop.ci", fe |-> "ci", n |-> n, k |-> k, conf |-> Conf(ki, li), li |-> li,
                                         first |-> f, grp |-> Part]))
  /\ \A n \in {400, 100000} : \A k \in {10, n \div 2, n - 10} :
       /\ AllConfs(LAMBDA ki, li, f : Emit([op |-> "prop.ci", fe |-> "ci_z_normal", n |-> n, k |-> k, conf |-> Conf(ki, li), li |-> li,
                                            first |-> f, grp |-> Part]))
       /\ AllConfs(LAMBDA ki, li, f : Emit([op |-> "prop.ci", fe |-> "ci", n |-> n, k |-> k, conf |-> Conf(ki, li), li |-> li,
                                            first |-> f, grp |-> Part]))
  \* the success-ratio form with rates j / 16 whose product with the population is not a whole number (18.75, 31.25, 68.75)
  /\ \A j \in {3, 5, 11} :
       AllConfs(LAMBDA ki, li, f : Emit([op |-> "prop.ci", fe |-> "ci_wilson_ratio_raw", n |-> 100, k |-> ((100 * j) + 8) \div 16,
                                         ratio |-> [n |-> j, p |-> -4], conf |-> Conf(ki, li), li |-> li, first |-> f, grp |-> Part]))
  /\ \A n \in 4..(IF Thorough THEN 60 ELSE 40) : \A qa \in {4, 11, 16, 27} :
       AllConfs(LAMBDA ki, li, f : Emit([op |-> "quant.ranks", n |-> n, q |-> [n |-> qa, p |-> -5], qa |-> qa,
                                         conf |-> Conf(ki, li), li |-> li, first |-> f, grp |-> Part]))

\* constant samples (zero spread: the degenerate interval must still be of the requested kind) and the
\* data-level quantile entry points (distinct values: the key of an order statistic is its rank + 1)
ConstData(v, n) == [rle |-> << <<v, n>> >>, order |-> "asc"]
QData(n, m, mul) == [i \in 1..n |-> (i * mul) % m]
C10ExtraPart(d) ==
  /\ \A ty \in {"f64", "f32"} : \A n \in {2, 5, 40} :
       /\ AllConfs(LAMBDA ki, li, f : Emit(MeanCase("arith", ty, "ci", ki, li, ConstData(V(7, -2), n), f)))
       /\ AllConfs(LAMBDA ki, li, f : Emit(MeanCase("arith", ty, "append", ki, li, ConstData(V(-3, 0), n), f)))
       /\ AllConfs(LAMBDA ki, li, f : Emit(MeanCase("harm", ty, "ci", ki, li, ConstData(V(1, 3), n), f)))
       /\ AllConfs(LAMBDA ki, li, f : Emit(MeanCase("geo", ty, "ci", ki, li, ConstData(V(1, 0), n), f)))
       /\ AllConfs(LAMBDA ki, li, f : Emit(MeanCase("paired", ty, "ci", ki, li,
                      [rle |-> [j \in 1..n |-> <<V(10 * j + 3, 0), 1>>], order |-> "asc"], f)
                      @@ [datab |-> [rle |-> [j \in 1..n |-> <<V(10 * j, 0), 1>>], order |-> "asc"]]))
  /\ \A ent \in {"ci", "sorted", "max_n", "max_1024"} : \A ty \in {"i32", "f64", "str"} :
     \A sz \in {<<10, 11, 7>>, <<16, 17, 3>>, <<30, 31, 7>>, <<16, 4, 3>>, <<30, 3, 7>>} : \A qa \in {4, 16, 27} :   \* (the last two: heavy ties)
       AllConfs(LAMBDA ki, li, f : Emit([op |-> "quant.data", entry |-> ent, ty |-> ty, data |-> QData(sz[1], sz[2], sz[3]),
                                         n |-> sz[1], q |-> [n |-> qa, p |-> -5], qa |-> qa, qb |-> 32,
                                         conf |-> Conf(ki, li), li |-> li, first |-> f, grp |-> "c10"]))

\* The same groups with the LEVEL in the outer loop and the kind in the inner loop, to be executed on one
\* thread: consecutive calls then share level and degrees of freedom and differ in the kind only.
AllConfsByLevel(f(_, _, _)) == \A li \in 1..NLEV : \A ki \in 1..3 : f(ki, li, ki = 1 /\ li = 1)
C10SeqPart(d) ==
  /\ \A i \in 1..ND : \A ty \in {"f64", "f32"} :
       LET n == Pick(50 + i, 11, 2, 120)
           da == RandSample(50 + i, n, 0, 0)
           dp == PosSample(50 + i, n, 0)
           db == RandSample(950 + i, n, 30, 0) IN
       /\ AllConfsByLevel(LAMBDA ki, li, f : Emit(MeanCase("arith", ty, "ci", ki, li, da, f)))
       /\ AllConfsByLevel(LAMBDA ki, li, f : Emit(MeanCase("geo", ty, "extend", ki, li, dp, f)))
       /\ AllConfsByLevel(LAMBDA ki, li, f : Emit(MeanCase("harm", ty, "append", ki, li, dp, f)))
       /\ AllConfsByLevel(LAMBDA ki, li, f : Emit(MeanCase("unpaired", ty, "ci", ki, li, da, f) @@ [datab |-> db]))
  /\ \A n \in {9, 30, 400} : \A k \in {2, n \div 3, n - 2} :
       /\ AllConfsByLevel(LAMBDA ki, li, f : Emit([op |-> "prop.ci", fe |-> "ci", n |-> n, k |-> k, conf |-> Conf(ki, li), li |-> li,
                                                  first |-> f, grp |-> "c10"]))
       /\ (n = 400) => AllConfsByLevel(LAMBDA ki, li, f : Emit([op |-> "prop.ci", fe |-> "ci_z_normal", n |-> n, k |-> n \div 3, conf |-> Conf(ki, li), li |-> li,
                                                  first |-> f, grp |-> "c10"]))
  /\ \A n \in {9, 16, 40} :
       AllConfsByLevel(LAMBDA ki, li, f : Emit([op |-> "quant.ranks", n |-> n, q |-> [n |-> 11, p |-> -5], qa |-> 11,
                                               conf |-> Conf(ki, li), li |-> li, first |-> f, grp |-> "c10"]))

\* ---- call histories on ONE thread (judged by comparing every call with the same call on a fresh thread) ------
\* consecutive requests that a per-thread memo keyed too coarsely would confuse: the same level with another kind, levels
\* whose quantile arguments differ by less than 10^-6, degrees of freedom with the same integer part
HistLevels == <<"0.95", "0.999999", "0.9999995", "0.5", "0.999999", "0.9", "0.95">>
HConf(ki, ls) == [kind |-> CKinds[ki], level |-> [dec |-> ls]]
HistPart(d) ==
  /\ \A r \in 1..2 : \A xi \in DOMAIN HistLevels : \A ki \in 1..3 :
       LET c == HConf(ki, HistLevels[xi])  f == (r = 1 /\ xi = 1 /\ ki = 1) IN
       /\ Emit([op |-> "prop.ci", fe |-> "ci", n |-> 400, k |-> 133, conf |-> c, li |-> 0, first |-> f, grp |-> "hist"])
       /\ Emit([op |-> "prop.ci", fe |-> "ci_z_normal", n |-> 400, k |-> 133, conf |-> c, li |-> 0, first |-> FALSE, grp |-> "hist"])
       /\ Emit([op |-> "quant.ranks", n |-> 40, q |-> [n |-> 11, p |-> -5], qa |-> 11, conf |-> c, li |-> 0, first |-> FALSE, grp |-> "hist"])
       /\ \A ty \in {"f64", "f32"} :
            Emit([op |-> "mean.ci", fl |-> "arith", ty |-> ty, style |-> "ci", conf |-> c, li |-> 0, first |-> FALSE, grp |-> "hist",
                  data |-> [rle |-> [j \in 1..10 |-> <<V((j * j) + 3, 0), 1>>], order |-> "asc"]])
  \* one-sample intervals interleaved with the designed unpaired pairs (real-valued dof 1.9 .. 20.2): the same quantile,
  \* dof n - 1 = floor(nu) or ceil(nu)
  /\ \A pi \in 1..NDesigned : \A ki \in 1..3 : \A ls \in {"0.95", "0.9"} :
       LET c  == HConf(ki, ls)
           nd == DesignedNu(pi)
           fl == BigToInt(BigDivFloor(nd[1], nd[2]))
           da == [rle |-> [j \in DOMAIN DesignedA(pi) |-> <<V(DesignedA(pi)[j], 0), 1>>], order |-> "asc"]
           db == [rle |-> [j \in DOMAIN DesignedB(pi) |-> <<V(DesignedB(pi)[j], 0), 1>>], order |-> "asc"]
           one(m) == [op |-> "mean.ci", fl |-> "arith", ty |-> "f64", style |-> "ci", conf |-> c, li |-> 0, first |-> FALSE, grp |-> "hist",
                      data |-> [rle |-> [j \in 1..m |-> <<V((j * j) + 1, 0), 1>>], order |-> "asc"]] IN
       /\ Emit(one(fl + 1))
       /\ Emit([op |-> "mean.ci", fl |-> "unpaired", ty |-> "f64", style |-> "ci", conf |-> c, li |-> 0, first |-> FALSE, grp |-> "hist",
                data |-> da, datab |-> db])
       /\ Emit(one(fl + 2))
       /\ Emit([op |-> "mean.ci", fl |-> "unpaired", ty |-> "f64", style |-> "ci", conf |-> c, li |-> 0, first |-> FALSE, grp |-> "hist",
                data |-> db, datab |-> da])

\* ---- C16 ----------------------------------------------------------------------------------------
ScaleExps == <<-40, -7, -1, 1, 10, 60>>
FlipK == <<1, 3, 2>>
Orders == <<"desc", "interleave", <<"shuffle", 7>>, <<"shuffle", 99>> >>
LevSel == {4, 8, 12, 19}
Tf(c, role, extra) == c @@ [role |-> role] @@ extra

C16Mean(fl, ty, ki, li, data, datab, two) ==
    LET mk(dd, db, kk, first) == IF two THEN MeanCase(fl, ty, "ci", kk, li, dd, first) @@ [datab |-> db]
                                 ELSE MeanCase(fl, ty, "ci", kk, li, dd, first) IN
    /\ Emit(Tf(mk(data, datab, ki, TRUE), "base", <<>>))
    \* exponents that avoid overflow / underflow of the squared quantities in the float type
    /\ \A s \in DOMAIN ScaleExps : (ty = "f64" \/ (ScaleExps[s] < 60 /\ (fl # "unpaired" \/ ScaleExps[s] > -40))) =>
          Emit(Tf(mk(data @@ [scale |-> [p |-> ScaleExps[s]]],
                     IF two THEN datab @@ [scale |-> [p |-> ScaleExps[s]]] ELSE datab, ki, FALSE),
                  "scale", [k |-> ScaleExps[s]]))
    /\ (fl \in {"arith", "paired", "unpaired"}) =>
          /\ Emit(Tf(mk(data @@ [neg |-> TRUE], IF two THEN datab @@ [neg |-> TRUE] ELSE datab, FlipK[ki], FALSE), "neg", <<>>))
          \* shifts inside the conditioning domain of the type
          /\ \A sh \in (IF ty = "f64" THEN {3, -1000, 65536} ELSE {3, -1000}) :
                Emit(Tf(mk(data @@ [shift |-> V(sh, 0)],
                           IF fl = "paired" THEN datab ELSE IF two THEN datab @@ [shift |-> V(2 * sh, 0)] ELSE datab, ki, FALSE),
                        "shift", [by |-> IF fl = "arith" \/ fl = "paired" THEN V(sh, 0) ELSE V(-sh, 0)]))
    /\ (fl # "paired") => \A o \in DOMAIN Orders :
          Emit(Tf(mk([data EXCEPT !.order = Orders[o]], datab, ki, FALSE), "reorder", <<>>))

\* mixed signs and magnitudes centred near zero, mantissas of 24 bits at exponents 0 .. -23: every partial sum
\* rounds and addends regularly exceed the running sum.  Negation must still mirror bit for bit.
MixSample(i, n) ==
    LET q  == n \div 5
        c1 == 1 + Pick(i, 71, 0, q)  c2 == 1 + Pick(i, 72, 0, q)  c3 == Pick(i, 73, 0, q)  c4 == Pick(i, 74, 0, q)
        c5 == n - c1 - c2 - c3 - c4
        M == 8388607
    IN [rle |-> << <<V(Pick(i, 75, -M, M), -23), c1>>, <<V(Pick(i, 76, -M, M), -11), c2>>, <<V(Pick(i, 77, -M, M), 0), c3>>,
                   <<V(Pick(i, 78, -M, M), -5), c4>>, <<V(Pick(i, 79, -M, M), -17), c5>> >>,
        order |-> <<"shuffle", 100 + i>>]
MixSeq(i, m, salt) == [rle |-> [j \in 1..m |-> <<V(Pick(i, salt + j, -8388607, 8388607), -(Pick(i, salt + 500 + j, 0, 23))), 1>>], order |-> "asc"]
MixNeg(d) ==
  \A i \in 1..(4 * ND) : \A ty \in {"f64", "f32"} : \A ki \in 1..3 :
     LET n  == 10 + Pick(900 + i, 11, 0, 50)                          \* n >= 10: the five block sizes of MixSample are >= 0
         da == MixSample(900 + i, n)
         db == MixSample(1900 + i, 10 + Pick(900 + i, 12, 0, 30))
         m  == Pick(900 + i, 13, 3, 40)
         pa == MixSeq(900 + i, m, 2000)
         pb == MixSeq(900 + i, m, 4000)
         ng(x) == x @@ [neg |-> TRUE] IN
     /\ Emit(Tf(MeanCase("arith", ty, "ci", ki, 12, da, TRUE), "base", <<>>))
     /\ Emit(Tf(MeanCase("arith", ty, "ci", FlipK[ki], 12, ng(da), FALSE), "neg", <<>>))
     /\ Emit(Tf(MeanCase("unpaired", ty, "ci", ki, 12, da, TRUE) @@ [datab |-> db], "base", <<>>))
     /\ Emit(Tf(MeanCase("unpaired", ty, "ci", FlipK[ki], 12, ng(da), FALSE) @@ [datab |-> ng(db)], "neg", <<>>))
     /\ Emit(Tf(MeanCase("paired", ty, "ci", ki, 12, pa, TRUE) @@ [datab |-> pb], "base", <<>>))
     /\ Emit(Tf(MeanCase("paired", ty, "ci", FlipK[ki], 12, ng(pa), FALSE) @@ [datab |-> ng(pb)], "neg", <<>>))

\* shifting a sample by minus its mean (a mean of exactly 0, two equal means) is an ordinary shift
ZeroMean(d) ==
  \A ty \in {"f64", "f32"} : \A ki \in 1..3 : \A li \in {8, 12} :
     LET da == [rle |-> << <<V(2, 0), 1>>, <<V(4, 0), 1>>, <<V(6, 0), 2>>, <<V(12, 0), 1>> >>, order |-> "asc"]      \* mean 6
         db == [rle |-> << <<V(1, 0), 2>>, <<V(7, 0), 2>>, <<V(14, 0), 1>> >>, order |-> "asc"]                     \* mean 6
         pa == [rle |-> [j \in 1..5 |-> <<V((10 * j) + ((j * j) % 5), 0), 1>>], order |-> "asc"]
         pb == [rle |-> [j \in 1..5 |-> <<V(10 * j, 0), 1>>], order |-> "asc"]                                       \* differences 1,4,4,1,0: mean 2
     IN
     /\ Emit(Tf(MeanCase("arith", ty, "ci", ki, li, da, TRUE), "base", <<>>))
     /\ Emit(Tf(MeanCase("arith", ty, "ci", ki, li, da @@ [shift |-> V(-6, 0)], FALSE), "shift", [by |-> V(-6, 0)]))
     /\ Emit(Tf(MeanCase("unpaired", ty, "ci", ki, li, da, TRUE) @@ [datab |-> db @@ [shift |-> V(3, 0)]], "base", <<>>))
     /\ Emit(Tf(MeanCase("unpaired", ty, "ci", ki, li, da, FALSE) @@ [datab |-> db], "shift", [by |-> V(3, 0)]))
     /\ Emit(Tf(MeanCase("paired", ty, "ci", ki, li, pa, TRUE) @@ [datab |-> pb], "base", <<>>))
     /\ Emit(Tf(MeanCase("paired", ty, "ci", ki, li, pa @@ [shift |-> V(-2, 0)], FALSE) @@ [datab |-> pb], "shift", [by |-> V(-2, 0)]))

\* two samples of EXACTLY equal spread (b = a + 10 on small integers with an integer mean: every sum and quotient is exact, the two standard deviations are
\* the same float), both shifted by a constant with a full mantissa: after the shift the sums round and the two standard
\* deviations differ in their last bits - the interval of the difference must not notice
EqualSpreadShift(d) ==
  \A ty \in {"f64", "f32"} : \A ki \in 1..3 : \A li \in {8, 12} :
     LET vs == <<1, 2, 4, 7, 11, 16, 20, 27>>                                              \* 8 values with mean 11: mean and variance are exact
         da == [rle |-> [j \in 1..8 |-> <<V(vs[j], 0), 1>>], order |-> "asc"]
         db == [rle |-> [j \in 1..8 |-> <<V(vs[j] + 10, 0), 1>>], order |-> "asc"]
         c  == IF ty = "f64" THEN V(214748365, -31) ELSE V(13421773, -27)                  \* about 0.1
     IN
     /\ Emit(Tf(MeanCase("unpaired", ty, "ci", ki, li, da, TRUE) @@ [datab |-> db], "base", <<>>))
     /\ Emit(Tf(MeanCase("unpaired", ty, "ci", ki, li, da @@ [shift |-> c], FALSE) @@ [datab |-> db @@ [shift |-> c]], "shift", [by |-> V(0, 0)]))

\* scaling into the last binades before the SUM of squares overflows (200 off-centre values of about 5000): the square of
\* the sum is out of range there, every square and their sum are not - scaling by a power of two stays exact
EdgeScale(d) ==
  \A i \in 1..2 : \A ty \in {"f64", "f32"} : \A ki \in 1..3 :
     LET da == RandSample(990 + i, 200, 5000, 0)
         k  == IF ty = "f64" THEN 494 ELSE 45
         pa == [rle |-> [j \in 1..40 |-> <<V(9000 + Pick(990 + i, 200 + j, -300, 300), 0), 1>>], order |-> "asc"]
         pb == [rle |-> [j \in 1..40 |-> <<V(Pick(990 + i, 300 + j, -300, 300), 0), 1>>], order |-> "asc"]
         sc(x) == x @@ [scale |-> [p |-> k]] IN
     /\ Emit(Tf(MeanCase("arith", ty, "ci", ki, 12, da, TRUE), "base", <<>>))
     /\ Emit(Tf(MeanCase("arith", ty, "ci", ki, 12, sc(da), FALSE), "scale", [k |-> k]))
     /\ Emit(Tf(MeanCase("paired", ty, "ci", ki, 12, pa, TRUE) @@ [datab |-> pb], "base", <<>>))
     /\ Emit(Tf(MeanCase("paired", ty, "ci", ki, 12, sc(pa), FALSE) @@ [datab |-> sc(pb)], "scale", [k |-> k]))

\* ... and down into the last binades in which every square, the variance and the standard deviation are still NORMAL numbers
\* (4096 observations with mean exactly 0, so that a bound is c * s / sqrt(n) and nothing else): no operation of the documented
\* formula underflows there, so scaling stays exact; a quantity n times smaller than the variance would not be normal any more
EdgeScaleDown(d) ==
  \A ty \in {"f64", "f32"} : \A ki \in 1..3 :
     LET da == [rle |-> << <<V(-900, 0), 1024>>, <<V(900, 0), 1024>>, <<V(-331, 0), 1024>>, <<V(331, 0), 1024>> >>, order |-> "interleave"]
         k  == IF ty = "f64" THEN -518 ELSE -70
         sc(x) == x @@ [scale |-> [p |-> k]] IN
     /\ Emit(Tf(MeanCase("arith", ty, "ci", ki, 12, da, TRUE), "base", <<>>))
     /\ Emit(Tf(MeanCase("arith", ty, "ci", ki, 12, sc(da), FALSE), "scale", [k |-> k]))
     /\ Emit(Tf(MeanCase("paired", ty, "ci", ki, 12, da, TRUE) @@ [datab |-> da @@ [order |-> "desc"]], "base", <<>>))
     /\ Emit(Tf(MeanCase("paired", ty, "ci", ki, 12, sc(da), FALSE) @@ [datab |-> sc(da @@ [order |-> "desc"])], "scale", [k |-> k]))

PermsOf(n) == Permutations(1..n)
C16Part(d) ==
  /\ \A i \in 1..ND : \A ty \in {"f64", "f32"} : \A li \in LevSel : \A ki \in 1..3 :
       LET n == Pick(i, 11, 2, 200)
           da == RandSample(i, n, Pick(i, 15, -50, 50), 0)
           db == RandSample(700 + i, Pick(i, 12, 2, 60), 30, 0)
           dp == PosSample(i, n, 0)
           m  == Pick(i, 13, 2, 40)
           pa == [rle |-> [j \in 1..m |-> <<V(Pick(i, 200 + j, -300, 300), 0), 1>>], order |-> "asc"]
           pb == [rle |-> [j \in 1..m |-> <<V(Pick(i, 300 + j, -300, 300), 0), 1>>], order |-> "asc"] IN
       /\ C16Mean("arith", ty, ki, li, da, <<>>, FALSE)
       /\ C16Mean("unpaired", ty, ki, li, da, db, TRUE)
       /\ C16Mean("paired", ty, ki, li, pa, pb, TRUE)
       /\ C16Mean("geo", ty, ki, li, dp, <<>>, FALSE)
       /\ C16Mean("harm", ty, ki, li, dp, <<>>, FALSE)
  \* every permutation of small samples
  /\ \A n \in 3..5 : \A ty \in {"f64", "f32"} : \A ki \in 1..3 :
       LET vals == <<V(7, 0), V(-13, -2), V(40, 0), V(7, 0), V(1001, -3)>> IN
       LET ident == [j \in 1..n |-> j]
           mkc(pm, first) == MeanCase("arith", ty, "ci", ki, 12, [rle |-> [j \in 1..n |-> <<vals[pm[j]], 1>>], order |-> "asc"], first) IN
       /\ Emit(Tf(mkc(ident, TRUE), "base", <<>>))
       /\ \A pm \in PermsOf(n) \ {ident} : Emit(Tf(mkc(pm, FALSE), "reorder", <<>>))
  \* long streams (compensated accumulation makes the sums nearly order independent), f32 and f64
  /\ \A N \in (IF Thorough THEN {100000, 100003, 1000000} ELSE {100003}) : \A ty \in {"f32", "f64"} : \A ki \in 1..3 :
       LET data == [rle |-> << <<V(1, -3), N \div 2>>, <<V(3, 0), N \div 4>>, <<V(1001, -1), N \div 8>>, <<V(-77, 2), N - N \div 2 - N \div 4 - N \div 8>> >>,
                    order |-> "asc"] IN
       /\ Emit(Tf(MeanCase("arith", ty, "extend", ki, 12, data, TRUE), "base", <<>>))
       /\ Emit(Tf(MeanCase("arith", ty, "extend", FlipK[ki], 12, data @@ [neg |-> TRUE], FALSE), "neg", <<>>))
       /\ Emit(Tf(MeanCase("arith", ty, "extend", ki, 12, data @@ [scale |-> [p |-> -7]], FALSE), "scale", [k |-> -7]))
       /\ \A o \in DOMAIN Orders :
             Emit(Tf(MeanCase("arith", ty, "extend", ki, 12, [data EXCEPT !.order = Orders[o]], FALSE), "reorder", <<>>))

Next == /\ ~done
        /\ done' = TRUE
        /\ CASE Part = "c10" -> C10Part(done) [] Part = "c16" -> (C16Part(done) /\ MixNeg(done) /\ ZeroMean(done) /\ EdgeScale(done) /\ EdgeScaleDown(done) /\ EqualSpreadShift(done)) [] Part = "c10seq" -> C10SeqPart(done)
             [] Part = "c10extra" -> C10ExtraPart(done) [] Part = "hist" -> HistPart(done)
Spec == Init /\ [][Next]_done
=============================================================================
