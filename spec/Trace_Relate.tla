----------------------------- MODULE Trace_Relate -----------------------------
(***************************************************************************)
(* Relational trace validation: clauses that relate several calls on the   *)
(* same (or a transformed) input.  The validator carries, per group,       *)
(*   C10: the table (kind, level) -> bounds of one producer on one input;  *)
(*   C16: the base outcome (and its bounds) of the untransformed call.     *)
(*                                                                         *)
(* C10  kind of result = kind of confidence; nesting in the level; the     *)
(*      one-sided bound at L equals the two-sided bound at 2L-1 (1e-9);    *)
(*      the point estimate lies in two-sided / level >= 1/2 intervals.     *)
(* C16  scaling by 2^k shifts every exponent by k (bit-exact) for          *)
(*      arithmetic / paired / unpaired / harmonic; for the geometric mean  *)
(*      the logarithms absorb k ln 2, which worsens the conditioning of    *)
(*      the one-pass variance by (k ln 2)^2 / s^2: allowance 2^10 (1+k^2)  *)
(*      ulp;                                                               *)
(*      negation mirrors bit-exactly with upper <-> lower; a shift moves   *)
(*      the bounds by the shift up to rounding; reordering moves them by   *)
(*      a few units of rounding error.                                     *)
(***************************************************************************)
EXTENDS RefTables, Float, Json, TLC

Rec == ndJsonDeserialize(IOEnv.TRACE)
PrecOf(e) == IF "ty" \in DOMAIN e /\ e.ty = "f32" THEN 24 ELSE 53
OkIv(e) == e.out.tag = "ok"
IsQuant(e) == e.op \in {"quant.ranks", "quant.data"}
IsProp(e) == e.op = "prop.ci"

\* bounds of an Ok event as [haslo, lo, hashi, hi] with dyadic values
Bnd(e) ==
    IF IsQuant(e)
    THEN [haslo |-> e.out.iv.kind # "lower", lo |-> IF e.out.iv.kind # "lower" THEN DyOfInt(e.out.iv.lo) ELSE DyZero,
          hashi |-> e.out.iv.kind # "upper", hi |-> IF e.out.iv.kind # "upper" THEN DyOfInt(e.out.iv.hi) ELSE DyZero]
    ELSE [haslo |-> e.out.iv.kind # "lower", lo |-> IF e.out.iv.kind # "lower" THEN FDy(e.out.iv.lo) ELSE DyZero,
          hashi |-> e.out.iv.kind # "upper", hi |-> IF e.out.iv.kind # "upper" THEN FDy(e.out.iv.hi) ELSE DyZero]
FiniteOK(e) == IsQuant(e) \/ ((e.out.iv.kind # "lower" => e.out.iv.lo.tag = "fin") /\ (e.out.iv.kind # "upper" => e.out.iv.hi.tag = "fin"))

\* |x - y| <= 2^-30 max(|x|, |y|)  (1e-9 relative)
Close(x, y) == DyLe(DyAbs(DySub(x, y)), DyShift(DyMax(DyAbs(x), DyAbs(y)), -30))

\* ---- C10 --------------------------------------------------------------------------------------
KindOK(e) == IF IsProp(e)
             THEN /\ e.out.iv.kind = "two"
                  /\ (e.conf.kind = "upper" => e.out.iv.hi.b = "3ff0000000000000")
                  /\ (e.conf.kind = "lower" => e.out.iv.lo.b = "0000000000000000")
             ELSE e.out.iv.kind = e.conf.kind

\* b1 (level below) is included in b2 (level above)
Nested(b1, b2) == /\ (b1.haslo /\ b2.haslo) => DyLe(b2.lo, b1.lo)
                  /\ (b1.hashi /\ b2.hashi) => DyLe(b1.hi, b2.hi)
                  /\ b1.haslo = b2.haslo /\ b1.hashi = b2.hashi

\* data-dependent bound of a one-sided interval vs the same side of a two-sided one
OneTwo(e, b1, btwo) ==
    IF IsQuant(e)
    THEN (e.conf.kind = "upper" => DyEq(b1.lo, btwo.lo)) /\ (e.conf.kind = "lower" => DyEq(b1.hi, btwo.hi))
    ELSE (e.conf.kind = "upper" => Close(b1.lo, btwo.lo)) /\ (e.conf.kind = "lower" => Close(b1.hi, btwo.hi))

HalfOrMore(li) == LevelA(li) >= 5000
\* the point estimate lies in the interval
Slack(e, x) == DyShift(DyAbs(x), 4 - PrecOf(e))           \* 8 ulp of the estimate
Contains(e, b) ==
    IF IsProp(e)
    THEN \* k/n within the bounds, up to 2^-50 (at level 1/2 a one-sided bound IS the estimate)
         /\ (b.haslo => DyLe(DyMulInt(b.lo, e.n), DyAdd(DyOfInt(e.k), DyShift(DyOfInt(e.n), -50))))
         /\ (b.hashi => DyLe(DySub(DyOfInt(e.k), DyShift(DyOfInt(e.n), -50)), DyMulInt(b.hi, e.n)))
    ELSE IF IsQuant(e) THEN TRUE                           \* decided by C03 (bracketing)
    ELSE IF e.stats.mean.tag # "fin" THEN TRUE
    ELSE LET m == IF e.fl = "unpaired" THEN DySub(FDy(e.stats.mean), FDy(e.stats.meanb)) ELSE FDy(e.stats.mean)
             s == IF e.fl = "unpaired" THEN DyAdd(Slack(e, FDy(e.stats.mean)), Slack(e, FDy(e.stats.meanb))) ELSE Slack(e, m)
         IN /\ (b.haslo => DyLe(b.lo, DyAdd(m, s)))
            /\ (b.hashi => DyLe(DySub(m, s), b.hi))
HasEstimate(e) == IsProp(e) \/ (~IsQuant(e) /\ "mean" \in DOMAIN e.stats /\ (e.fl # "unpaired" \/ "meanb" \in DOMAIN e.stats))

TwoLevelFor(li) == {lj \in 1..NLEV : LevelA(lj) = 2 * LevelA(li) - 10000}

C10Failed(e, tbl) ==
    IF e.out.tag = "panic" THEN {"C10.no_panic"}
    ELSE IF ~OkIv(e) THEN {}
    ELSE IF ~FiniteOK(e) THEN {"C10.finite_bounds"}
    ELSE LET b == Bnd(e)
             kd == e.conf.kind
             prevs == {lj \in 1..(e.li - 1) : <<kd, lj>> \in DOMAIN tbl}
             lower == IF prevs = {} THEN 0 ELSE CHOOSE lj \in prevs : \A lk \in prevs : lk <= lj
             twos == {lj \in TwoLevelFor(e.li) : <<"two", lj>> \in DOMAIN tbl} IN
         {c \in {"C10.kind"} : ~KindOK(e)}
         \cup {c \in {"C10.nesting"} : lower # 0 /\ ~Nested(tbl[<<kd, lower>>], b)}
         \cup {c \in {"C10.one_sided_equals_two_sided"} : kd # "two" /\ LevelA(e.li) > 5000 /\
                  \E lj \in twos : ~OneTwo(e, b, tbl[<<"two", lj>>])}
         \cup {c \in {"C10.contains_estimate"} : HasEstimate(e) /\ (kd = "two" \/ HalfOrMore(e.li)) /\ ~Contains(e, b)}

Producer(e) == IF IsProp(e) THEN "proportion_" \o e.fe ELSE IF e.op = "quant.data" THEN "quantile_data_" \o e.entry
               ELSE IF IsQuant(e) THEN "quantile" ELSE e.fl
C10Clauses(e, tbl) ==
    IF ~OkIv(e) THEN (IF e.out.tag = "err" THEN {"C10.rejected." \o Producer(e)} ELSE {})
    ELSE LET kd == e.conf.kind IN
         {"C10.kind", "C10.producer." \o Producer(e), "C10.kind." \o kd}
         \cup (IF ~IsProp(e) /\ ~IsQuant(e) /\ "var" \in DOMAIN e.stats /\ e.stats.var.tag = "fin" /\ e.stats.var.m = <<>>
               THEN {"C10.constant_sample." \o kd} ELSE {})
         \cup (IF \E lj \in 1..(e.li - 1) : <<kd, lj>> \in DOMAIN tbl THEN {"C10.nesting"} ELSE {})
         \cup (IF kd # "two" /\ LevelA(e.li) > 5000 /\ \E lj \in TwoLevelFor(e.li) : <<"two", lj>> \in DOMAIN tbl
               THEN {"C10.one_sided_equals_two_sided", "C10.one_two." \o Producer(e)} ELSE {})
         \cup (IF HasEstimate(e) /\ (kd = "two" \/ HalfOrMore(e.li)) THEN {"C10.contains_estimate"} ELSE {})

\* ---- C16 --------------------------------------------------------------------------------------
\* x2 = x1 * 2^k bit-exactly
ScaledBits(x1, x2, k) == /\ x1.tag = "fin" /\ x2.tag = "fin" /\ x1.m = x2.m /\ (x1.m # <<>> => x1.s = x2.s /\ x2.e = x1.e + k)
NegBits(x, y) == /\ x.tag = "fin" /\ y.tag = "fin" /\ x.m = y.m /\ x.e = y.e /\ (x.m # <<>> => x.s # y.s)
FlipKind(k) == CASE k = "upper" -> "lower" [] k = "lower" -> "upper" [] OTHER -> "two"
NearUlps(x, y, prec, ulps) == DyLe(DyAbs(DySub(x, y)), DyShift(DyMulInt(DyMax(DyAbs(x), DyAbs(y)), ulps), 1 - prec))

\* the same on recorded floats; a bound that left the float range on either side (exp overflow of a geometric bound at an
\* extreme level) cannot be compared
NearUlpsF(f1, k, f2, prec, ulps) == (f1.tag # "fin" \/ f2.tag # "fin") \/ NearUlps(DyShift(FDy(f1), k), FDy(f2), prec, ulps)
\* geometric bounds are exp of log-space bounds: an absolute error there is a relative error here, growing with |log2 bound|
Log2Bound(g) == IF g.tag # "fin" \/ g.m = <<>> THEN 0 ELSE LET t == g.e + 15 * Len(g.m) IN (IF t < 0 THEN -t ELSE t) + 15
\* harmonic bounds are reciprocals of reciprocal-space bounds m -/+ c se: close to 0 (high levels, few observations) the
\* cancellation amplifies the rounding error by about |bound| / H
AmpHarm(e, f) == IF f.tag # "fin" \/ e.stats.mean.tag # "fin" \/ e.stats.mean.m = <<>> THEN 1
                 ELSE LET x == DyAbs(FDy(f))  h == DyAbs(FDy(e.stats.mean))  ex == Min2(DyE(x), DyE(h))
                          q == BigDivFloor(DyAt(x, ex), DyAt(h, ex)) IN
                      IF BigFitsInt(q) THEN 1 + BigToInt(q) ELSE 1073741824
ReorderUlps(e, f) == IF e.fl = "geo" THEN 64 * (2 + Log2Bound(f))
                     ELSE IF e.fl = "harm" THEN (LET a == AmpHarm(e, f) IN IF a > 1000000 THEN 2000000000 ELSE 64 * a)
                     ELSE 64
SameShape(o1, o2) == o1.tag = o2.tag /\ (o1.tag = "ok" => o1.iv.kind = o2.iv.kind)
\* scaling by a power of two is exact for these (reciprocals of powers of two are exact as well)
ExactFl(e) == e.fl \in {"arith", "paired", "unpaired", "harm"}
AbsI(k) == IF k < 0 THEN -k ELSE k

C16Failed(e, base) ==
    IF e.out.tag = "panic" THEN {"C16.no_panic"}
    ELSE IF e.role = "base" \/ base = <<>> THEN {}
    ELSE LET o1 == base.out  o2 == e.out IN
    CASE e.role = "scale" ->
           IF ExactFl(e)
           THEN {c \in {"C16.scale_exact"} :
                   ~(SameShape(o1, o2) /\ (o1.tag = "ok" =>
                        /\ (o1.iv.kind # "lower" => ScaledBits(o1.iv.lo, o2.iv.lo, e.k))
                        /\ (o1.iv.kind # "upper" => ScaledBits(o1.iv.hi, o2.iv.hi, e.k))))}
           ELSE {c \in {"C16.scale_rounding"} :
                   ~(SameShape(o1, o2) /\ (o1.tag = "ok" =>
                        /\ (o1.iv.kind # "lower" => NearUlpsF(o1.iv.lo, e.k, o2.iv.lo, PrecOf(e), 1024 * (1 + e.k * e.k)))
                        /\ (o1.iv.kind # "upper" => NearUlpsF(o1.iv.hi, e.k, o2.iv.hi, PrecOf(e), 1024 * (1 + e.k * e.k)))))}
      [] e.role = "neg" ->
           {c \in {"C16.negation_mirrors"} :
              ~(o1.tag = o2.tag /\ (o1.tag = "ok" =>
                   /\ o2.iv.kind = FlipKind(o1.iv.kind)
                   /\ (o1.iv.kind # "lower" => NegBits(o1.iv.lo, o2.iv.hi))
                   /\ (o1.iv.kind # "upper" => NegBits(o1.iv.hi, o2.iv.lo))))}
      [] e.role = "shift" ->
           LET by == Dy(BigOfInt(e.by.n), e.by.p)
               \* point estimate of the shifted run (unpaired: difference of the two means)
               est == IF e.fl = "unpaired" THEN DySub(FDy(e.stats.mean), FDy(e.stats.meanb)) ELSE FDy(e.stats.mean)
               \* rounding of the bounds + conditioning of the variance after the shift (relative to the half-width)
               ok(x1, x2) == DyLe(DyAbs(DySub(DySub(FDy(x2), FDy(x1)), by)),
                                  DyAdd(DyShift(DyAdd(DyAdd(DyAbs(FDy(x1)), DyAbs(FDy(x2))), DyAbs(by)), 10 - PrecOf(e)),
                                        DyShift(DyAbs(DySub(FDy(x2), est)), IF PrecOf(e) = 53 THEN -20 ELSE -8)))
           IN {c \in {"C16.shift"} :
                 ~(SameShape(o1, o2) /\ (o1.tag = "ok" =>
                      /\ (o1.iv.kind # "lower" => ok(o1.iv.lo, o2.iv.lo))
                      /\ (o1.iv.kind # "upper" => ok(o1.iv.hi, o2.iv.hi))))}
      [] e.role = "reorder" ->
           {c \in {"C16.reorder"} :
              ~(SameShape(o1, o2) /\ (o1.tag = "ok" =>
                   /\ (o1.iv.kind # "lower" => NearUlpsF(o1.iv.lo, 0, o2.iv.lo, PrecOf(e), ReorderUlps(e, o1.iv.lo)))
                   /\ (o1.iv.kind # "upper" => NearUlpsF(o1.iv.hi, 0, o2.iv.hi, PrecOf(e), ReorderUlps(e, o1.iv.hi)))))}
      [] OTHER -> {}

C16Clauses(e, base) ==
    IF e.role = "base" THEN {"C16.base." \o e.fl}
    ELSE CASE e.role = "scale" -> {IF ExactFl(e) THEN "C16.scale_exact" ELSE "C16.scale_rounding", "C16.scale." \o e.fl}
           [] e.role = "neg" -> {"C16.negation_mirrors", "C16.neg." \o e.fl} \cup (IF e.conf.kind # "two" THEN {"C16.neg_one_sided"} ELSE {})
           [] e.role = "shift" -> {"C16.shift", "C16.shift." \o e.fl}
           [] e.role = "reorder" -> {"C16.reorder", "C16.reorder." \o e.ty}
                                    \cup (IF e.n >= 100000 THEN {"C16.reorder_long_stream." \o e.ty} ELSE {})
           [] OTHER -> {}

VARIABLES l, cov, nbad, tbl, base, fl
vars == <<l, cov, nbad, tbl, base, fl>>
Init == l = 1 /\ cov = <<>> /\ nbad = 0 /\ tbl = <<>> /\ base = <<>> /\ fl = {}
Bump(c, cs) == [x \in DOMAIN c \cup cs |->
                   (IF x \in DOMAIN c THEN c[x] ELSE 0) + (IF x \in cs THEN 1 ELSE 0)]

Next ==
  /\ l <= Len(Rec)
  /\ LET e == Rec[l]
         t0 == IF e.first THEN <<>> ELSE tbl
         b0 == IF e.first THEN <<>> ELSE base IN
     /\ fl' = (IF e.grp = "c10" THEN C10Failed(e, t0) ELSE IF e.grp = "hist" THEN {c \in {"C10.no_panic"} : e.out.tag = "panic"}
               ELSE C16Failed(e, b0))
              \* the same request on a fresh thread gives the same answer (no dependence on the calls made before)
              \cup {c \in {IF e.grp \in {"c10", "hist"} THEN "C10.history_independent" ELSE "C16.history_independent"} :
                      "out_fresh" \in DOMAIN e /\ e.out # e.out_fresh}
     /\ (fl' # {}) => PrintT("BAD " \o ToJson([id |-> e.id, failed |-> fl']))
     /\ nbad' = nbad + (IF fl' = {} THEN 0 ELSE 1)
     /\ cov' = Bump(cov, (IF e.grp = "c10" THEN C10Clauses(e, t0) ELSE IF e.grp = "hist" THEN {"C10.no_panic", "C10.history." \o e.op} ELSE C16Clauses(e, b0))
                          \cup (IF "out_fresh" \in DOMAIN e THEN {IF e.grp \in {"c10", "hist"} THEN "C10.history_independent" ELSE "C16.history_independent"} ELSE {}))
     /\ tbl' = IF e.grp = "c10" /\ OkIv(e) /\ FiniteOK(e) THEN (<<e.conf.kind, e.li>> :> Bnd(e)) @@ t0 ELSE t0
     /\ base' = IF e.grp = "c16" /\ e.first THEN e ELSE b0
  /\ l' = l + 1

Spec == Init /\ [][Next]_vars
Flush == (l = Len(Rec) + 1) =>
            PrintT("COV " \o ToJson([events |-> Len(Rec), bad |-> nbad, cov |-> cov]))
=============================================================================
