------------------------------ MODULE Proportion ------------------------------
(***************************************************************************)
(* Proportion intervals (C02, C17, and the z part of C06).                 *)
(*                                                                         *)
(* For n trials, k successes and critical value z (z^2 ranging over the    *)
(* reference enclosure of module RefTables) the finite bounds are roots of *)
(*   Wilson :  W(p) = (n p - k)^2 - z^2 n p (1 - p)                        *)
(*   Wald   :  A(p) = n (n p - k)^2 - z^2 k (n - k)                        *)
(* Both are negative strictly between their two roots and positive         *)
(* outside.  A returned bound b is accepted as the LEFT (RIGHT) root when  *)
(* the polynomial is positive at b -/+ D and negative at b +/- D for every *)
(* admitted z^2: a rigorous root enclosure in exact dyadic arithmetic, no  *)
(* square root, no division.  D = 2^-46.                                   *)
(***************************************************************************)
EXTENDS RefTables, Float

D == Dy(BigOfInt(1), -46)
One == DyOfInt(1)

\* polynomials at a dyadic point p for a dyadic z^2; the counts n, k are dyadic values too (populations
\* beyond the 32-bit integers of TLC are written a * 2^p)
WilsonD(n, k, p, z2) ==
    LET npk == DySub(DyMul(p, n), k)
    IN DySub(DySq(npk), DyMul(z2, DyMul(DyMul(p, DySub(One, p)), n)))
WaldD(n, k, p, z2) ==
    LET npk == DySub(DyMul(p, n), k)
    IN DySub(DyMul(DySq(npk), n), DyMul(z2, DyMul(k, DySub(n, k))))
PolyD(method, n, k, p, z2) == IF method = "wald" THEN WaldD(n, k, p, z2) ELSE WilsonD(n, k, p, z2)
Wilson(n, k, p, z2) == WilsonD(DyOfInt(n), DyOfInt(k), p, z2)
Wald(n, k, p, z2) == WaldD(DyOfInt(n), DyOfInt(k), p, z2)
Poly(method, n, k, p, z2) == PolyD(method, DyOfInt(n), DyOfInt(k), p, z2)

\* z^2 enclosure <<lo, hi>> from the |z| enclosure
Z2Enc(kind, li) == LET m == MagEnc(ZRow(IF kind = "two" THEN "two" ELSE "one", li))
                   IN <<DySq(m[1]), DySq(m[2])>>

\* both polynomials are decreasing in z^2 on 0 <= p <= 1
IsLeftRoot(method, n, k, b, z2e) ==
    /\ DySign(Poly(method, n, k, DySub(b, D), z2e[2])) > 0
    /\ DySign(Poly(method, n, k, DyAdd(b, D), z2e[1])) < 0
IsRightRoot(method, n, k, b, z2e) ==
    /\ DySign(Poly(method, n, k, DySub(b, D), z2e[1])) < 0
    /\ DySign(Poly(method, n, k, DyAdd(b, D), z2e[2])) > 0
\* z = 0 (level 1/2 one-sided): double root at k/n
IsDoubleRoot(n, k, b) == DyLe(DyAbs(DySub(DyMulInt(b, n), DyOfInt(k))), DyMulInt(D, n))

\* The bound of an "upper" interval is centre - z*h, of a "lower" one centre + z*h (z signed):
\* with z > 0 the former is the left root, with z < 0 the right root.
BoundOK(method, n, k, which, b, kind, li) ==
    LET sg  == CritSign(IF kind = "two" THEN "two" ELSE "one", li)
        z2e == Z2Enc(kind, li)
    IN IF sg = 0 THEN IsDoubleRoot(n, k, b)
       ELSE IF (which = "lo") = (sg > 0)
            THEN IsLeftRoot(method, n, k, b, z2e)
            ELSE IsRightRoot(method, n, k, b, z2e)

\* the same judge for dyadic counts
IsLeftRootD(method, n, k, b, z2e) ==
    /\ DySign(PolyD(method, n, k, DySub(b, D), z2e[2])) > 0
    /\ DySign(PolyD(method, n, k, DyAdd(b, D), z2e[1])) < 0
IsRightRootD(method, n, k, b, z2e) ==
    /\ DySign(PolyD(method, n, k, DySub(b, D), z2e[1])) < 0
    /\ DySign(PolyD(method, n, k, DyAdd(b, D), z2e[2])) > 0
BoundOKD(method, n, k, which, b, kind, li) ==
    LET sg  == CritSign(IF kind = "two" THEN "two" ELSE "one", li)
        z2e == Z2Enc(kind, li)
    IN IF sg = 0 THEN DyLe(DyAbs(DySub(DyMul(b, n), k)), DyMul(D, n))
       ELSE IF (which = "lo") = (sg > 0)
            THEN IsLeftRootD(method, n, k, b, z2e)
            ELSE IsRightRootD(method, n, k, b, z2e)

\* The judge for an explicitly given sign and a WIDE z^2 enclosure (levels outside the grid, where the enclosure admits the
\* rounding of the target probability): b is accepted when it is within D of the root for SOME z^2 of the enclosure.  The
\* left root decreases and the right root increases with z^2, and k/n lies between the roots.
IsLeftRootX(method, n, k, b, z2e) ==
    /\ DySign(Poly(method, n, k, DySub(b, D), z2e[1])) > 0
    /\ DySign(Poly(method, n, k, DyAdd(b, D), z2e[2])) < 0
    /\ DyLe(DyMulInt(DySub(b, D), n), DyOfInt(k))
IsRightRootX(method, n, k, b, z2e) ==
    /\ DySign(Poly(method, n, k, DyAdd(b, D), z2e[1])) > 0
    /\ DySign(Poly(method, n, k, DySub(b, D), z2e[2])) < 0
    /\ DyLe(DyOfInt(k), DyMulInt(DyAdd(b, D), n))
BoundOKZ(method, n, k, which, b, sg, z2e) ==
    IF sg = 0 THEN IsDoubleRoot(n, k, b)
    ELSE IF (which = "lo") = (sg > 0)
         THEN IsLeftRootX(method, n, k, b, z2e)
         ELSE IsRightRootX(method, n, k, b, z2e)

In01(b) == DySign(b) >= 0 /\ DyLe(b, One)
\* k/n compared with a dyadic bound:  b <= k/n  <=>  n b <= k
LeKN(b, n, k) == DyLe(DyMulInt(b, n), DyOfInt(k))
GeKN(b, n, k) == DyLe(DyOfInt(k), DyMulInt(b, n))

\* Interval shape for a confidence kind: two -> both bounds; upper -> [b, 1]; lower -> [0, b]
ShapeOK(iv, kind) ==
    /\ iv.kind = "two"             \* proportion intervals always carry both ends
    /\ (kind = "upper" => iv.hi.b = "3ff0000000000000")      \* exactly 1.0
    /\ (kind = "lower" => iv.lo.b = "0000000000000000")      \* exactly +0.0
=============================================================================
