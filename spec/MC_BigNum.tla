------------------------------ MODULE MC_BigNum ------------------------------
(***************************************************************************)
(* Self-test of the exact kernel: on boundary and pseudo-random operands   *)
(* every accelerated operator equals its pure TLA+ definition, and the     *)
(* definitions satisfy ring / order laws and agree with TLC's native       *)
(* integers where those suffice.  One state per operand pair.              *)
(***************************************************************************)
EXTENDS BigNum, TLC, IOUtils

EnvInt(name, default) == IF name \in DOMAIN IOEnv THEN atoi(IOEnv[name]) ELSE default
Rounds == EnvInt("BIG_ROUNDS", 300)

\* deterministic pseudo-random limbs (LCG on TLC integers, kept below 2^31)
Lcg(s) == ((s % 65537) * 75 + 74) % 65537
LimbOf(s) == Lcg(s) % BASE
RECURSIVE RandMag(_, _)
RandMag(s, n) == IF n = 0 THEN <<>> ELSE <<LimbOf(s)>> \o RandMag(Lcg(s), n - 1)
RandBig(s) == LET n == Lcg(s + 7) % 9
                  sg == IF Lcg(s + 3) % 2 = 0 THEN 1 ELSE -1
              IN BigOfLimbs(sg, RandMag(s, n))

Small == {-70000, -32768, -32767, -1, 0, 1, 2, 32767, 32768, 32769, 65535, 1073741823}

VARIABLES i, x, y
vars == <<i, x, y>>
Init == i = 0 /\ x = BigZero /\ y = BigZero
Next == /\ i < Rounds
        /\ i' = i + 1
        /\ x' = RandBig(17 * i + 1)
        /\ y' = RandBig(31 * i + 5)
Spec == Init /\ [][Next]_vars

OverrideIsDef ==
    /\ BigAdd(x, y) = BigAddDef(x, y)
    /\ BigSub(x, y) = BigSubDef(x, y)
    /\ BigMul(x, y) = BigMulDef(x, y)
    /\ BigCmp(x, y) = BigCmpDef(x, y)
    /\ (Sgn(y) # 0) => BigDivFloor(BigAbs(x), BigAbs(y)) = BigDivFloorDef(BigAbs(x), BigAbs(y))
    /\ \A k \in {0, 1, 14, 15, 16, 29, 30, 31, 45, 100} : BigShl(x, k) = BigShlDef(x, k)
    /\ \A k \in {0, 1, 14, 15, 16, 29, 30, 31, 45, 100} : BigShr(x, k) = BigShrDef(x, k)

Laws ==
    /\ BigAddDef(x, y) = BigAddDef(y, x)
    /\ BigMulDef(x, y) = BigMulDef(y, x)
    /\ BigSubDef(BigAddDef(x, y), y) = x
    /\ BigMulDef(x, BigAddDef(y, BigOfInt(1))) = BigAddDef(BigMulDef(x, y), x)
    /\ BigCmpDef(x, y) = -BigCmpDef(y, x)
    /\ BigCmpDef(BigAddDef(x, BigOfInt(1)), x) = 1
    /\ BigShlDef(x, 17) = BigMulDef(x, BigOfInt(131072))
    /\ (Sgn(x) = 0) = (Mag(x) = <<>>)
    /\ (Sgn(y) # 0) => LET q == BigDivFloorDef(BigAbs(x), BigAbs(y))
                           r == BigSubDef(BigAbs(x), BigMulDef(q, BigAbs(y)))
                       IN Sgn(r) >= 0 /\ BigCmpDef(r, BigAbs(y)) < 0
    /\ \A k \in {0, 7, 15, 33} : BigShrDef(BigShlDef(x, k), k) = x
    /\ BigCmpDef(BigAbs(BigShlDef(BigShrDef(x, 9), 9)), BigAbs(x)) <= 0
    /\ DyCmp(Dy(x, 3), Dy(BigShlDef(x, 3), 0)) = 0
    /\ DyEq(DyAdd(Dy(x, -5), Dy(y, 7)), Dy(BigAddDef(x, BigShlDef(y, 12)), -5))

\* agreement with native integers on small values
Native == \A a \in Small, b \in Small :
             /\ (a + b < 2147483647 /\ a + b > -2147483647) =>
                    BigAdd(BigOfInt(a), BigOfInt(b)) = BigOfInt(a + b)
             /\ BigCmp(BigOfInt(a), BigOfInt(b)) = (IF a < b THEN -1 ELSE IF a > b THEN 1 ELSE 0)
             /\ (a \in -40000..40000 /\ b \in -40000..40000) =>
                    BigMul(BigOfInt(a), BigOfInt(b)) = BigOfInt(a * b)
ASSUME Native
=============================================================================
