-------------------------------- MODULE Float --------------------------------
(***************************************************************************)
(* IEEE binary32 / binary64 values *as data*.  A float arrives in a trace  *)
(* as [t, tag, s, e, m, b]: tag \in {"fin","nan","inf","-inf"}; for finite *)
(* values sign s, odd mantissa m (limbs base 2^15) and exponent e of the   *)
(* least significant bit, value = (-1)^s * m * 2^e; b = the raw bits (hex). *)
(***************************************************************************)
EXTENDS BigNum

IsFin(f)  == f.tag = "fin"
IsNaN(f)  == f.tag = "nan"
IsInf(f)  == f.tag \in {"inf", "-inf"}

\* exact value of a finite float as a dyadic
FDy(f)    == Dy(BigOfLimbs(IF f.s = 1 THEN -1 ELSE 1, f.m), f.e)
FIsZero(f) == IsFin(f) /\ f.m = <<>>
FSign(f)  == CASE f.tag = "inf" -> 1 [] f.tag = "-inf" -> -1
               [] f.tag = "fin" -> (IF f.m = <<>> THEN 0 ELSE IF f.s = 1 THEN -1 ELSE 1)
SameBits(f, g) == f.b = g.b
\* IEEE equality of non-NaN values (+0 = -0)
FEq(f, g) == CASE IsFin(f) /\ IsFin(g) -> DyEq(FDy(f), FDy(g))
               [] OTHER -> f.tag = g.tag /\ ~IsNaN(f)
\* order on non-NaN values, infinities included
FLe(f, g) == CASE f.tag = "-inf" -> TRUE
               [] g.tag = "inf"  -> TRUE
               [] f.tag = "inf"  -> FALSE
               [] g.tag = "-inf" -> FALSE
               [] OTHER -> DyLe(FDy(f), FDy(g))
FLt(f, g) == FLe(f, g) /\ ~FEq(f, g)

\* unit roundoff exponent: u = 2^-Prec(t)
Prec(t) == IF t = "f32" THEN 24 ELSE 53

\* |x - y| <= 2^k * |y|   (relative closeness of dyadics)
DyNearRel(x, y, k) == DyLe(DyAbs(DySub(x, y)), DyShift(DyAbs(y), k))
\* |x - y| <= t
DyNearAbs(x, y, t) == DyLe(DyAbs(DySub(x, y)), t)
=============================================================================
