SPECIFICATION Spec
INVARIANT EvenRowsCertified
INVARIANT Sensitive
CHECK_DEADLOCK FALSE
