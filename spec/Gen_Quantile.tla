----------------------------- MODULE Gen_Quantile -----------------------------
(***************************************************************************)
(* Case generator for quantile intervals (C03).                            *)
(*  PART=ranks : every n in 0..Q_N x quantile grid (dyadic j/32 incl. 0, 1 *)
(*               and values outside [0,1]; products near half-integers     *)
(*               (2j+1)/(2n) and their float neighbours; NaN) x            *)
(*               confidences, through ci_indices / Stats::ci / index        *)
(*  PART=perm  : EVERY permutation of every multiset shape of size 4..P_N  *)
(*               (ties included) through quantile::ci on i32, and a        *)
(*               rotating subset through every entry point and type        *)
(*  PART=shuffle : seeded shuffles of run-length described samples up to   *)
(*               1024 elements                                             *)
(***************************************************************************)
EXTENDS Integers, Sequences, FiniteSets, TLC, Json, IOUtils

EnvInt(name, default) == IF name \in DOMAIN IOEnv THEN atoi(IOEnv[name]) ELSE default
Part == IF "PART" \in DOMAIN IOEnv THEN IOEnv.PART ELSE "ranks"
QN   == EnvInt("Q_N", 60)
PN   == EnvInt("P_N", 6)
NSh  == EnvInt("Q_SHUFFLES", 60)
Emit(c) == PrintT("CASE " \o ToJson(c))

LevelDecs == <<"0.001", "0.01", "0.05", "0.1", "0.2", "0.25", "0.3", "0.5", "0.75", "0.8", "0.9", "0.95",
               "0.975", "0.99", "0.995", "0.998", "0.999", "0.9995", "0.9999">>
CKinds == <<"two", "upper", "lower">>
Conf(ki, li) == [kind |-> CKinds[ki], level |-> [dec |-> LevelDecs[li]]]
LevSel == {1, 8, 10, 12, 19}

VARIABLE done
Init == done = FALSE

QSpecs(n) ==
    {[n |-> j, p |-> -5] : j \in (-1)..33}
    \cup (IF n >= 2 THEN {[num |-> 2 * j + 1, den |-> 2 * n, ulp |-> u] :
                            j \in {1, n \div 4, n \div 2, n - 2}, u \in {-1, 0, 1}} ELSE {})
    \cup {[tag |-> "nan"]}

RanksPart(d) ==
  \A n \in 0..QN : \A q \in QSpecs(n) :
     /\ \A ki \in 1..3, li \in LevSel :
           Emit([op |-> "quant.ranks", n |-> n, q |-> q, conf |-> Conf(ki, li), li |-> li])
     /\ Emit([op |-> "quant.index", n |-> n, q |-> q])

\* the same rank arithmetic at populations far above the exhaustive range, on both sides of every size that is special to
\* some part of the crate (1024, 4096, 65 536, 100 000, 2^24): the ranks are the Wilson ranks WHATEVER the population
LargeNs == <<99, 1000, 1023, 1025, 4097, 65536, 99999, 100000, 100001, 250000, 1000003, 16777217>>
LargeRanksPart(d) ==
  \A i \in DOMAIN LargeNs : LET n == LargeNs[i] IN
     \A q \in {[n |-> j, p |-> -5] : j \in {1, 3, 10, 16, 29, 31}}
              \cup {[num |-> 2 * j + 1, den |-> 2 * n, ulp |-> 0] : j \in {n \div 10, (9 * n) \div 10}} :
        \A ki \in 1..3, li \in LevSel :
           Emit([op |-> "quant.ranks", n |-> n, q |-> q, conf |-> Conf(ki, li), li |-> li])

\* multiset shapes of size m: keys 1..m with ties
Shapes(m) == {[i \in 1..m |-> i], [i \in 1..m |-> (i + 1) \div 2], [i \in 1..m |-> IF i <= 2 THEN 1 ELSE i],
              [i \in 1..m |-> 3]}
Perms(m) == Permutations(1..m)
Entries == <<"ci", "sorted", "max_n", "max_1024">>
EntriesX == <<"ci", "sorted", "max_n", "max_1024", "ci_sparse">>
Types   == <<"i32", "f64", "char", "str">>
Quants  == <<[n |-> 16, p |-> -5], [n |-> 8, p |-> -5], [n |-> 25, p |-> -5]>>

PermPart(d) ==
  \A m \in 4..PN : \A sh \in Shapes(m) : \A pm \in Perms(m) :
     LET data == [i \in 1..m |-> sh[pm[i]]]
         h == (pm[1] * 7 + pm[2] * 3 + pm[m]) IN
     /\ \A qi \in 1..3 : Emit([op |-> "quant.data", dfmt |-> "seq", entry |-> "ci", ty |-> "i32", data |-> data,
                             q |-> Quants[qi], conf |-> Conf(1, 10), li |-> 10])
     /\ Emit([op |-> "quant.data", dfmt |-> "seq", entry |-> Entries[(h % 4) + 1], ty |-> Types[((h \div 4) % 4) + 1], data |-> data,
              q |-> Quants[1], conf |-> Conf((h % 3) + 1, 12), li |-> 12])

ShufflePart(d) ==
  \A i \in 1..NSh :
     LET n1 == RandomElement(1..300)  n2 == RandomElement(0..300)  n3 == RandomElement(0..400)
         seed == RandomElement(1..1000000)
         qi == RandomElement(1..31)  ki == RandomElement(1..3)  li == RandomElement(LevSel)
         data == [rle |-> <<<<1, n1>>, <<2, n2>>, <<5, n3>>, <<9, 7>>>>, order |-> <<"shuffle", seed>>]
     IN \A ei \in 1..4 : \A ti \in 1..4 :
           (ei # 3) =>
           Emit([op |-> "quant.data", dfmt |-> "rle", entry |-> Entries[ei], ty |-> Types[ti], data |-> data,
                 q |-> [n |-> qi, p |-> -5], conf |-> Conf(ki, li), li |-> li])

\* seeded shuffles of DISTINCT values 0..n-1 (a selection algorithm that is only partially ordered shows here)
IotaPart(d) ==
  \A i \in 1..NSh :
     LET n == 17 + ((i * 37) % 400)
         seed == 1000 + i * 7919
         qi == 1 + ((i * 11) % 31) IN
     \A ki \in 1..3 : \A ei \in {1, 2, 4, 5} :
        Emit([op |-> "quant.data", dfmt |-> "iota", entry |-> EntriesX[ei], ty |-> Types[(i % 2) + 1],
              data |-> [iota |-> n, order |-> <<"shuffle", seed>>],
              q |-> [n |-> qi, p |-> -5], conf |-> Conf(ki, 12), li |-> 12])

\* the fixed-capacity variant with a capacity above the documented default (CAP = 4096 in the harness):
\* samples of more than 1024 elements that fit the requested capacity
BigCapPart(d) ==
  /\ \A n \in {1025, 2049, 4096} : \A ki \in 1..3 : \A qi \in {3, 16, 29} :
       Emit([op |-> "quant.data", dfmt |-> "iota", entry |-> "max_n", ty |-> (IF n = 2049 THEN "f64" ELSE "i32"),
             data |-> [iota |-> n, order |-> <<"shuffle", 4242 + n>>],
             q |-> [n |-> qi, p |-> -5], conf |-> Conf(ki, 12), li |-> 12])
  \* exactly at and next to the documented default capacity
  /\ \A n \in {1023, 1024} : \A ki \in 1..3 : \A qi \in {3, 16, 29} : \A ent \in {"max_1024", "ci"} :
       Emit([op |-> "quant.data", dfmt |-> "iota", entry |-> ent, ty |-> "i32",
             data |-> [iota |-> n, order |-> <<"shuffle", 77 + n>>],
             q |-> [n |-> qi, p |-> -5], conf |-> Conf(ki, 12), li |-> 12])

\* populations far beyond 2^32 (index-only entry points; a * 2^p with p >= 5 so that q * n is an integer)
BigPopPart(d) ==
  \A nb \in {[a |-> 5, p |-> 31], [a |-> 152587890, p |-> 6], [a |-> 931322575, p |-> 10], [a |-> 1, p |-> 40]} :
     \A qj \in {1, 3, 16, 29, 31} : \A ki \in 1..3 : \A li \in LevSel :
        Emit([op |-> "quant.big", nbig |-> nb, q |-> [n |-> qj, p |-> -5], qj |-> qj, conf |-> Conf(ki, li), li |-> li])

Next == /\ ~done
        /\ done' = TRUE
        /\ CASE Part = "ranks" -> (RanksPart(done) /\ LargeRanksPart(done) /\ BigPopPart(done)) [] Part = "big" -> BigPopPart(done) [] Part = "perm" -> PermPart(done) [] Part = "shuffle" -> (ShufflePart(done) /\ IotaPart(done) /\ BigCapPart(done))
Spec == Init /\ [][Next]_done
=============================================================================
