------------------------------ MODULE RefTables ------------------------------
(***************************************************************************)
(* Special functions as UNINTERPRETED functions constrained by tables and  *)
(* axioms.  TQ(nu, kind, li) / ZQ(kind, li): dyadic enclosures <<lo, hi>>  *)
(* of the Student-t (nu degrees of freedom) / standard normal quantile at  *)
(* p = (1+L)/2 (kind "two") or p = L (one-sided kinds), L = Levels[li].    *)
(* The rows come from committed files (spec/tables, generated once with    *)
(* mpmath at 60 digits by tools/gen_tables.py); MC_Tables checks their     *)
(* axioms in exact arithmetic.  This is the one trusted artefact produced  *)
(* outside TLA+.                                                           *)
(***************************************************************************)
EXTENDS BigNum, Json, IOUtils

TDir == IF "VERIF_TABLES" \in DOMAIN IOEnv THEN IOEnv.VERIF_TABLES ELSE "tables"
SCALE == 110
NLEV  == 19
LevelRows == ndJsonDeserialize(TDir \o "/levels.ndjson")
NuRows    == ndJsonDeserialize(TDir \o "/nus.ndjson")
ZQRows    == ndJsonDeserialize(TDir \o "/zq.ndjson")
TQRows    == ndJsonDeserialize(TDir \o "/tq.ndjson")
NNU == Len(NuRows)
DenseNu == 300                      \* nu index = nu for 1..300

KindIdx(kind) == IF kind = "two" THEN 1 ELSE 2
LevelDec(li)  == LevelRows[li].dec
LevelBits(li) == LevelRows[li].bits
LevelA(li)    == LevelRows[li].a        \* level * 10^4
NuOf(ni)      == NuRows[ni].nu
HasNu(nu)     == nu \in 1..DenseNu \/ \E i \in (DenseNu + 1)..NNU : NuRows[i].nu = nu
NuIdx(nu)     == IF nu <= DenseNu THEN nu ELSE CHOOSE i \in (DenseNu + 1)..NNU : NuRows[i].nu = nu

Enc(row) == LET lo == Dy(BigOfLimbs(1, row.lo), -SCALE)
                hi == Dy(BigOfLimbs(1, row.hi), -SCALE)
            IN CASE row.sg = 1  -> <<lo, hi>>
                 [] row.sg = -1 -> <<DyNeg(hi), DyNeg(lo)>>
                 [] OTHER       -> <<DyNeg(hi), hi>>
\* magnitude enclosure <<lo, hi>> >= 0 and sign
MagEnc(row) == <<Dy(BigOfLimbs(1, row.lo), -SCALE), Dy(BigOfLimbs(1, row.hi), -SCALE)>>

ZRow(kind, li)      == ZQRows[(KindIdx(kind) - 1) * NLEV + li]
TRowI(ni, kind, li) == TQRows[((ni - 1) * 2 + (KindIdx(kind) - 1)) * NLEV + li]
TRow(nu, kind, li)  == TRowI(NuIdx(nu), kind, li)
ZQ(kind, li)     == Enc(ZRow(kind, li))
TQ(nu, kind, li) == Enc(TRow(nu, kind, li))
\* sign of the critical value = sign of (p - 1/2)
CritSign(kind, li) == ZRow(kind, li).sg

\* the normal quantile at EXTREME levels (tools/gen_tables_zx.py): rows in the order kind, level; the enclosure already
\* admits a target probability formed in f64 arithmetic (one ulp of 1.0) and 2^-40 relative on the quantile
ZQXRows == ndJsonDeserialize(TDir \o "/zqx.ndjson")
NXLEV == Len(ZQXRows) \div 2
ZXRow(kind, xi) == ZQXRows[(KindIdx(kind) - 1) * NXLEV + xi]
XLevelDec(xi) == ZQXRows[xi].dec
XLevelBits(xi) == ZQXRows[xi].bits

\* designed unpaired sample pairs with non-integer effective degrees of freedom (tools/gen_tables_x.py):
\* rows carry the samples, the exact rational dof and the quantile enclosure
TQXRows == ndJsonDeserialize(TDir \o "/tqx.ndjson")
NDesigned == Len(TQXRows) \div (2 * NLEV)
XRow(pi, kind, li) == TQXRows[((pi - 1) * 2 + (KindIdx(kind) - 1)) * NLEV + li]
DesignedA(pi) == XRow(pi, "two", 1).a
DesignedB(pi) == XRow(pi, "two", 1).b
DesignedNu(pi) == <<BigOfLimbs(1, XRow(pi, "two", 1).nu_num), BigOfLimbs(1, XRow(pi, "two", 1).nu_den)>>
=============================================================================
