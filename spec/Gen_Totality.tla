----------------------------- MODULE Gen_Totality -----------------------------
(***************************************************************************)
(* Case generator for C11: every interval-computing entry point x every    *)
(* class of invalid / degenerate input at every position of otherwise      *)
(* valid data x three kinds x confidence levels.                           *)
(*   PART=mean   mean / comparison producers                               *)
(*   PART=prop   proportion producers, is_significant, Stats::new          *)
(*   PART=quant  quantile producers (ranks and data level)                 *)
(***************************************************************************)
EXTENDS Totality, TLC, Json, IOUtils

EnvInt(name, default) == IF name \in DOMAIN IOEnv THEN atoi(IOEnv[name]) ELSE default
Part == IF "PART" \in DOMAIN IOEnv THEN IOEnv.PART ELSE "mean"
Thorough == IF "TIER" \in DOMAIN IOEnv THEN IOEnv.TIER = "thorough" ELSE FALSE
Emit(c) == PrintT("CASE " \o ToJson(c))

Levels == IF Thorough THEN {"0.001", "0.5", "0.95", "0.9999"} ELSE {"0.001", "0.95", "0.9999"}
CKinds == {"two", "upper", "lower"}
Confs  == {[kind |-> k, level |-> [dec |-> l]] : k \in CKinds, l \in Levels}

BaseVals == <<3, 5, 9, 4, 7, 6>>
MaxLen == IF Thorough THEN 6 ELSE 4
Base(m) == [i \in 1..m |-> Num(BaseVals[i])]
BadClasses(ty) == {[c |-> "nan"], [c |-> "inf"], [c |-> "ninf"], [c |-> "negzero"], Num(0), Num(-2)}
                  \cup (IF ty = "f64" THEN {[c |-> "huge", v |-> 3], [c |-> "tiny", v |-> 3]} ELSE {})

\* samples: valid prefixes (incl. empty and singleton), one offending element at every position,
\* constant / non exactly summable constant / all-extreme samples
Samples(ty) ==
    {Base(m) : m \in 0..MaxLen}
    \cup {[Base(m) EXCEPT ![i] = x] : m \in 1..MaxLen, i \in 1..MaxLen, x \in BadClasses(ty)}
    \cup {[i \in 1..m |-> Num(7)] : m \in 2..4}
    \cup {[i \in 1..m |-> [c |-> "tenth", v |-> 1]] : m \in 2..4}
    \cup (IF ty = "f64" THEN {[i \in 1..3 |-> [c |-> "huge", v |-> i]], [i \in 1..3 |-> [c |-> "tiny", v |-> i]]} ELSE {})
SamplesOK(ty) == {s \in Samples(ty) : \A i \in DOMAIN s : i <= Len(s)}

Rle(xs) == [rle |-> [i \in DOMAIN xs |-> <<xs[i], 1>>], order |-> "asc"]

Styles(fl) == CASE fl \in {"arith", "geo", "harm"} ->
                     (IF Thorough THEN {"ci", "ops", "ops_mean", "ops_append", "meanci", "from_iter", "extend", "append"} ELSE {"ci", "extend", "append", "ops_mean"})
                [] fl = "paired" -> (IF Thorough THEN {"ci", "extend", "extend_tuple", "append_pair"} ELSE {"ci", "extend"})
                [] fl = "unpaired" -> (IF Thorough THEN {"ci", "extend", "from_iter", "extend_a_b", "append_a_b", "new", "mut"}
                                       ELSE {"ci", "from_iter", "new"})
\* partner sample for the two-sample flavours
Partner(fl, xs) == IF fl = "paired" THEN [i \in DOMAIN xs |-> Num(BaseVals[i] + i)] ELSE Base(3)

VARIABLE done
Init == done = FALSE

MeanPart(dummy) ==
  \A ty \in {"f64", "f32"}, fl \in {"arith", "geo", "harm", "paired", "unpaired"} :
    \A xs \in Samples(ty), st \in Styles(fl), cf \in Confs :
      IF fl \in {"arith", "geo", "harm"}
      THEN Emit([op |-> "mean.ci", fl |-> fl, ty |-> ty, style |-> st, conf |-> cf, data |-> Rle(xs)])
      ELSE /\ Emit([op |-> "mean.ci", fl |-> fl, ty |-> ty, style |-> st, conf |-> cf,
                    data |-> Rle(xs), datab |-> Rle(Partner(fl, xs))])
           /\ Emit([op |-> "mean.ci", fl |-> fl, ty |-> ty, style |-> st, conf |-> cf,
                    data |-> Rle(Partner(fl, xs)), datab |-> Rle(xs)])
           \* mismatched lengths (paired) / one short sample (unpaired)
           /\ (Len(xs) = 3 /\ xs = Base(3)) =>
                 \A m \in {0, 1, 2, 5} :
                    /\ Emit([op |-> "mean.ci", fl |-> fl, ty |-> ty, style |-> st, conf |-> cf,
                             data |-> Rle(xs), datab |-> Rle(Base(m))])
                    /\ Emit([op |-> "mean.ci", fl |-> fl, ty |-> ty, style |-> st, conf |-> cf,
                             data |-> Rle(Base(m)), datab |-> Rle(xs)])

PropN == IF Thorough THEN 45 ELSE 24
PropPart(dummy) ==
  /\ \A n \in 0..PropN, k \in 0..(PropN + 1) : k <= n + 1 =>
       /\ Emit([op |-> "prop.sig", n |-> n, k |-> k])
       /\ \A cf \in Confs, fe \in {"ci", "ci_wilson", "ci_z_normal"} :
             Emit([op |-> "prop.ci", fe |-> fe, n |-> n, k |-> k, conf |-> cf])
       /\ (k <= n) => \A cf \in Confs, fe \in {"ci_true", "stats_new", "stats_add"} :
             Emit([op |-> "prop.ci", fe |-> fe, n |-> n, k |-> k, conf |-> cf])
  /\ \A n \in {31, 32, 36, 37, 40}, k \in {0, 5, 6, 20, 33, 34, 35, 36, 41} : Emit([op |-> "prop.sig", n |-> n, k |-> k])
  /\ \A n \in 0..6, k \in 0..7 : Emit([op |-> "prop.stats_new", n |-> n, k |-> k])
  /\ \A cf \in Confs, r \in {[n |-> 0, p |-> 0], [n |-> -1, p |-> -1], [tag |-> "nan"], [n |-> 3, p |-> -1], [tag |-> "inf"], [tag |-> "-inf"]} :
       Emit([op |-> "prop.ci", fe |-> "ci_wilson_ratio_raw", n |-> 20, k |-> 0, ratio |-> r, conf |-> cf])

QN == IF Thorough THEN 40 ELSE 16
QuantPart(dummy) ==
  /\ \A n \in 0..QN, qa \in (-1)..9, cf \in Confs :
       Emit([op |-> "quant.ranks", n |-> n, qa |-> qa, qb |-> 8, q |-> [n |-> qa, p |-> -3], conf |-> cf])
  /\ \A n \in {0, 3, 4, 9}, cf \in Confs, sp \in {[tag |-> "nan"], [tag |-> "inf"], [tag |-> "-inf"]} :
       Emit([op |-> "quant.ranks", n |-> n, qa |-> 0, qb |-> 0, q |-> sp, conf |-> cf])
  /\ \A n \in {0, 2, 3, 4, 7}, qa \in {-1, 0, 3, 4, 8, 9}, cf \in Confs,
        ent \in {"ci", "sorted", "max_n", "max_1024"}, ty \in {"i32", "f64", "char", "str"} :
       Emit([op |-> "quant.data", entry |-> ent, ty |-> ty, data |-> [i \in 1..n |-> (i * 3) % 7],
             qa |-> qa, qb |-> 8, q |-> [n |-> qa, p |-> -3], conf |-> cf])
  \* ci_sorted_unchecked on data in DESCENDING order: whatever it answers, never an interval with its bounds inverted
  /\ \A n \in {4, 7, 15}, qa \in {2, 4, 6}, cf \in Confs, ty \in {"i32", "f64"} :
       Emit([op |-> "quant.data", entry |-> "sorted_raw", ty |-> ty, data |-> [i \in 1..n |-> n + 1 - i],
             qa |-> qa, qb |-> 8, q |-> [n |-> qa, p |-> -3], conf |-> cf])
  \* documented panics: incomparable elements, capacity overflow
  /\ \A n \in {4, 7, 15}, pos \in 0..14, cf \in Confs, ent \in {"ci", "max_n", "max_1024"}, qa \in {2, 4, 6} :
       (pos < n) =>
       Emit([op |-> "quant.data", entry |-> ent, ty |-> "f64nan", nanpos |-> pos, data |-> [i \in 1..n |-> i],
             qa |-> qa, qb |-> 8, q |-> [n |-> qa, p |-> -3], conf |-> cf])
  /\ \A n \in {4, 7}, cf \in Confs :
       Emit([op |-> "quant.data", entry |-> "max_small", ty |-> "i32", data |-> [i \in 1..n |-> i],
             qa |-> 4, qb |-> 8, q |-> [n |-> 4, p |-> -3], conf |-> cf])

Next == /\ ~done
        /\ done' = TRUE
        /\ CASE Part = "mean" -> MeanPart(done) [] Part = "prop" -> PropPart(done) [] Part = "quant" -> QuantPart(done)
Spec == Init /\ [][Next]_done
=============================================================================
