----------------------------- MODULE Trace_Build -----------------------------
(***************************************************************************)
(* C20: every advertised feature set builds; serialized Confidence and     *)
(* Interval values round-trip unchanged.                                   *)
(***************************************************************************)
EXTENDS Integers, Sequences, TLC, Json, IOUtils
Rec == ndJsonDeserialize(IOEnv.TRACE)

Failed(e) ==
  CASE e.op = "build" -> {c \in {"C20.build"} : ~e.ok}
    [] e.op \in {"serde.conf", "serde.interval", "serde.state"} ->
         {c \in {"C20.value_roundtrip"} : ~(e.out.tag = "ok" /\ e.out.eq /\ e.out.same_text)}
Clauses(e) ==
  CASE e.op = "build" -> {"C20.build", "C20.build." \o e.name}
    [] e.op = "serde.conf" -> {"C20.value_roundtrip", "C20.value.confidence"}
    [] e.op = "serde.interval" -> {"C20.value_roundtrip", "C20.value.interval." \o e.ty}
    [] e.op = "serde.state" -> {"C20.value_roundtrip", "C20.value.state." \o e.kind}
                               \cup (IF e.doublings >= 31 \/ (e.kind = "prop" /\ e.nbig.p >= 32) THEN {"C20.value.count_beyond_32_bits"} ELSE {})

VARIABLES l, cov, nbad
vars == <<l, cov, nbad>>
Init == l = 1 /\ cov = <<>> /\ nbad = 0
Bump(c, cs) == [x \in DOMAIN c \cup cs |->
                   (IF x \in DOMAIN c THEN c[x] ELSE 0) + (IF x \in cs THEN 1 ELSE 0)]
Next == /\ l <= Len(Rec)
        /\ LET e == Rec[l]  f == Failed(e)  cs == Clauses(e) IN
             /\ (f # {}) => PrintT("BAD " \o ToJson([id |-> e.id, failed |-> f]))
             /\ nbad' = nbad + (IF f = {} THEN 0 ELSE 1)
             /\ cov' = Bump(cov, cs)
        /\ l' = l + 1
Spec == Init /\ [][Next]_vars
Flush == (l = Len(Rec) + 1) =>
            PrintT("COV " \o ToJson([events |-> Len(Rec), bad |-> nbad, cov |-> cov]))
=============================================================================
