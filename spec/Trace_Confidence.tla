--------------------------- MODULE Trace_Confidence ---------------------------
(***************************************************************************)
(* Trace validation of Confidence (C18).  Levels are exact dyadic values   *)
(* decoded from the recorded f64 encodings.                                *)
(***************************************************************************)
EXTENDS Float, Json, IOUtils, TLC

Rec == ndJsonDeserialize(IOEnv.TRACE)

\* 0 < l < 1 on the exact value
TValid(l) == /\ IsFin(l)
             /\ DySign(FDy(l)) > 0
             /\ DyLt(FDy(l), DyOfInt(1))
TCmp(a, b) == IF IsNaN(a) \/ IsNaN(b) THEN "none"
              ELSE IF FLt(a, b) THEN "lt" ELSE IF FLt(b, a) THEN "gt" ELSE "eq"
C == INSTANCE Confidence WITH Valid <- TValid, LCmp <- TCmp

DefaultBits == "3fee666666666666"      \* 0.95

Failed(e) ==
  CASE e.op = "conf.make" ->
         LET s == C!MakeOutcome(e.path, e.levelv) IN
         {c \in {"C18.make_outcome"} : e.out.tag # s.tag}
         \cup {c \in {"C18.make_value"} : s.tag = "ok" /\ e.out.tag = "ok" /\
                  (\/ e.out.conf.kind # s.conf.kind
                   \/ ~SameBits(e.out.conf.level, e.levelv))}
         \cup {c \in {"C18.make_error"} : s.tag = "err" /\ e.out.tag = "err" /\
                  (\/ e.out.variant # s.variant
                   \/ ~SameBits(e.out.arg, e.levelv))}
    [] e.op = "conf.observe" ->
         IF e.res.tag # "ok" THEN {"C18.observe_total"}
         ELSE LET r == e.res
                  c0 == [kind |-> e.cin.kind, level |-> e.cin.level]
                  fl == C!Flipped(c0)
                  L  == FDy(c0.level) IN
         {c \in {"C18.level"} : ~SameBits(r.level, c0.level)}
         \cup {c \in {"C18.percent"} :
                  ~(IsFin(r.percent) /\ DyNearRel(FDy(r.percent), DyMulInt(L, 100), -52))}
         \cup {c \in {"C18.kind_string"} : r.kind # C!KindString(c0)}
         \cup {c \in {"C18.predicates"} :
                  \/ r.is_two_sided # (c0.kind = "two") \/ r.is_one_sided # (c0.kind # "two")
                  \/ r.is_upper # (c0.kind = "upper") \/ r.is_lower # (c0.kind = "lower")}
         \cup {c \in {"C18.flipped"} :
                  \/ r.flipped.kind # fl.kind \/ ~SameBits(r.flipped.level, c0.level)
                  \/ ~r.flipped_twice_eq \/ ~r.clone_eq}
         \cup {c \in {"C18.default"} : r.default.kind # "two" \/ r.default.level.b # DefaultBits}
    [] e.op = "conf.cmp" ->
         IF e.res.tag # "ok" THEN {"C18.cmp_total"}
         ELSE LET r == e.res
                  c0 == [kind |-> e.cin.kind, level |-> e.cin.level]
                  d0 == [kind |-> e.din.kind, level |-> e.din.level]
                  x == C!CCmp(c0, d0) IN
         {c \in {"C18.partial_cmp"} : r.cmp # x}
         \cup {c \in {"C18.operators"} :
                  [lt |-> r.lt, le |-> r.le, gt |-> r.gt, ge |-> r.ge] # C!OpsOf(r.cmp)}
         \cup {c \in {"C18.eq"} : r.eq # C!CEq(c0, d0) \/ r.ne # ~C!CEq(c0, d0)}

Clauses(e) ==
  CASE e.op = "conf.make" -> {"C18.make_outcome"}
           \cup (IF TValid(e.levelv) THEN {"C18.make_value"}
                 ELSE IF C!Fallible(e.path) THEN {"C18.make_error", "C18.make_rejects_fallible"}
                 ELSE {"C18.make_rejects_panic"})
    [] e.op = "conf.observe" -> {"C18.level", "C18.percent", "C18.kind_string", "C18.predicates",
                                 "C18.flipped", "C18.default"}
    [] e.op = "conf.cmp" -> {"C18.partial_cmp", "C18.operators", "C18.eq"}

VARIABLES l, cov, nbad
vars == <<l, cov, nbad>>
Init == l = 1 /\ cov = <<>> /\ nbad = 0
Bump(c, cs) == [x \in DOMAIN c \cup cs |->
                   (IF x \in DOMAIN c THEN c[x] ELSE 0) + (IF x \in cs THEN 1 ELSE 0)]
Next == /\ l <= Len(Rec)
        /\ LET e  == Rec[l]
               f  == Failed(e)
               cs == Clauses(e) IN
             /\ (f # {}) => PrintT("BAD " \o ToJson([id |-> e.id, failed |-> f]))
             /\ nbad' = nbad + (IF f = {} THEN 0 ELSE 1)
             /\ cov' = Bump(cov, cs)
        /\ l' = l + 1
Spec == Init /\ [][Next]_vars
Flush == (l = Len(Rec) + 1) =>
            PrintT("COV " \o ToJson([events |-> Len(Rec), bad |-> nbad, cov |-> cov]))
=============================================================================
