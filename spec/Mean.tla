--------------------------------- MODULE Mean ---------------------------------
(***************************************************************************)
(* Mean and comparison intervals over exact arithmetic (C01, C04, C05,     *)
(* C06).  A sample is given as run-length pairs <<[n |-> N, p |-> P], c>>  *)
(* (the value N * 2^P, c times) with optional exact transforms (scale by a *)
(* power of two, negation, shift); TLC computes the exact sufficient       *)
(* statistics                                                              *)
(*     n,  S1 = sum x,  S2 = sum x^2,  Sabs = sum |x|,  V = n S2 - S1^2    *)
(* as dyadic numbers - also for samples of 10^6 elements - and judges a    *)
(* returned bound b through  E = n b - S1  ( = n (b - xbar) ):             *)
(*     E^2 (n - 1) = c^2 V,   sign(E) = -/+ sign(c)  for the low / high    *)
(* bound, where c^2 ranges over the reference enclosure of the t / normal  *)
(* quantile.  No division and no square root are needed.                   *)
(*                                                                         *)
(* Tolerance (DESIGN.md 3.7), for float type with unit roundoff u:         *)
(*   on a bound:  8u (Sabs/n + |b|) + |b - xbar| (8u kappa + tq(nu) + 8u)  *)
(*   kappa = n S2 / V  (conditioning of the one-pass variance),            *)
(*   tq(nu) = allowance for the dependency's t quantile (piecewise).       *)
(***************************************************************************)
EXTENDS RefTables, Float

ValDy(v) == Dy(BigOfInt(v.n), v.p)

\* exact transform of a value: x * 2^k, negated, shifted
Tr(x, d) ==
    LET x1 == IF "scale" \in DOMAIN d THEN DyShift(x, d.scale.p) ELSE x
        x2 == IF "neg" \in DOMAIN d /\ d.neg THEN DyNeg(x1) ELSE x1
    IN IF "shift" \in DOMAIN d THEN DyAdd(x2, ValDy(d.shift)) ELSE x2

RECURSIVE MomFrom(_, _)
MomFrom(d, i) ==
    IF i > Len(d.rle) THEN [n |-> 0, s1 |-> DyZero, s2 |-> DyZero, sabs |-> DyZero]
    ELSE LET r == MomFrom(d, i + 1)
             x == Tr(ValDy(d.rle[i][1]), d)
             c == d.rle[i][2]
         IN [n |-> r.n + c, s1 |-> DyAdd(r.s1, DyMulInt(x, c)),
             s2 |-> DyAdd(r.s2, DyMulInt(DySq(x), c)), sabs |-> DyAdd(r.sabs, DyMulInt(DyAbs(x), c))]
Moments(d) == LET m == MomFrom(d, 1) IN
              [n |-> m.n, s1 |-> m.s1, s2 |-> m.s2, sabs |-> m.sabs,
               v |-> DySub(DyMulInt(m.s2, m.n), DySq(m.s1))]

\* moments of the differences of two aligned run-length samples are generated directly by the
\* generator (paired data are given as the sample of differences plus a partner), see Gen_Mean.

-----------------------------------------------------------------------------
(* critical values *)

\* allowance for the t quantile of the dependency (relative), as 2^-k
TqExp(nu) == IF nu <= 50 THEN 29 ELSE IF nu <= 1000 THEN 25 ELSE IF nu <= 5000 THEN 20
             ELSE IF nu <= 50000 THEN 17 ELSE 12
ZqExp == 40

SwitchLo == 50000         \* "about 100 000": between these either distribution is admitted
SwitchHi == 200000
LastT    == 99999

OneKind(kind) == IF kind = "two" THEN "two" ELSE "one"

\* magnitude enclosure <<lo, hi>> of the admitted critical value for nu degrees of freedom
CritMag(nu, kind, li) ==
    LET z == MagEnc(ZRow(OneKind(kind), li)) IN
    IF nu > SwitchHi THEN z
    ELSE IF nu > LastT THEN <<z[1], MagEnc(TRow(LastT, OneKind(kind), li))[2]>>
    ELSE IF nu >= SwitchLo THEN <<z[1], MagEnc(TRow(nu, OneKind(kind), li))[2]>>
    ELSE MagEnc(TRow(nu, OneKind(kind), li))
\* beyond the zone in which either distribution is admitted the critical value is the normal quantile
CritTolExp(nu) == IF nu > SwitchHi THEN ZqExp ELSE IF nu > LastT THEN TqExp(LastT) ELSE TqExp(nu)
CritKnown(nu) == nu > LastT \/ HasNu(nu)
CSign(kind, li) == CritSign(OneKind(kind), li)

-----------------------------------------------------------------------------
(* the bound judge.  st = [n, s1, v, s2, sabs]; b dyadic; which in {"lo","hi"};             *)
(* cm = <<clo, chi>> magnitude enclosure; sg = sign of c; prec = 24 | 53; tqe = exponent    *)

U8(prec) == Dy(BigOfInt(1), 3 - prec)           \* 8u

BoundDev(st, b) == DySub(DyMulInt(b, st.n), st.s1)           \* E = n b - S1

BoundOK(st, b, which, cm, sg, prec, tqe) ==
    LET E    == BoundDev(st, b)
        aE   == DyAbs(E)
        base == DyMul(U8(prec), DyAdd(st.sabs, DyMulInt(DyAbs(b), st.n)))          \* n * 8u (Sabs/n + |b|)
    IN IF DySign(st.v) = 0
       THEN \* constant sample: the degenerate interval, up to the rounding error of the computed
            \* variance (the V > 0 branch below admits V^ = V +- 8u n S2; this is its limit V = 0:
            \* E^2 (n-1) <= c^2 8u n S2).  Exactly squarable data (S2 error-free) still give E ~ 0
            \* in the crate; the allowance is what the property's conditioning clause grants.
            LET lowr == IF DyLe(aE, base) THEN DyZero ELSE DySub(aE, base) IN
            DyLe(DyMulInt(DySq(lowr), st.n - 1), DyMul(DySq(cm[2]), DyMul(U8(prec), DyMulInt(st.s2, st.n))))
       ELSE LET V    == st.v
                tolV == DyAdd(DyMul(base, V),
                              DyMul(aE, DyAdd(DyMul(U8(prec), DyMulInt(st.s2, st.n)),
                                              DyMul(DyAdd(Dy(BigOfInt(1), -tqe), U8(prec)), V))))
                left == DyMul(aE, V)
                lowr == IF DyLe(left, tolV) THEN DyZero ELSE DySub(left, tolV)
                uppr == DyAdd(left, tolV)
                V3   == DyMul(DySq(V), V)
                want == IF which = "hi" THEN sg ELSE -sg
            IN /\ DyLe(DyMulInt(DySq(lowr), st.n - 1), DyMul(DySq(cm[2]), V3))
               /\ DyLe(DyMul(DySq(cm[1]), V3), DyMulInt(DySq(uppr), st.n - 1))
               /\ (DyLe(left, tolV) \/ DySign(E) = want)

\* statistics
MeanOK(st, m, prec) ==
    DyLe(DyAbs(DySub(DyMulInt(m, st.n), st.s1)),
         DyMul(U8(prec), DyAdd(st.sabs, DyMulInt(DyAbs(m), st.n))))
\* |x n (n-1) - V| <= f * 8u (n S2 + V)
VarLikeOK(st, x, prec, f) ==
    DyLe(DyAbs(DySub(DyMulInt(DyMulInt(x, st.n), st.n - 1), st.v)),
         DyMulInt(DyMul(U8(prec), DyAdd(DyMulInt(st.s2, st.n), st.v)), f))

-----------------------------------------------------------------------------
(* unpaired comparison: two samples a, b *)
\* Da = na^2 (na - 1); se^2 = Va/Da + Vb/Db; E = b na nb - S1a nb + S1b na  ( = na nb * (b - (xa - xb)) )
UDa(st) == DyMulInt(DyMulInt(DyOfInt(st.n), st.n), st.n - 1)       \* dyadic: n up to 10^6 and beyond
UNum(sa, sb) == DyAdd(DyMul(sa.v, UDa(sb)), DyMul(sb.v, UDa(sa)))     \* se^2 * Da Db
\* effective degrees of freedom  nu = P / Q - 2
UNuP(sa, sb) == DyMulInt(DyMulInt(DySq(UNum(sa, sb)), sa.n + 1), sb.n + 1)
UNuQ(sa, sb) == DyAdd(DyMulInt(DySq(DyMul(sa.v, UDa(sb))), sb.n + 1),
                      DyMulInt(DySq(DyMul(sb.v, UDa(sa))), sa.n + 1))
\* floor(P/Q) as an integer (P, Q > 0)
Ratiofloor(P, Q) == LET e == Min2(DyE(P), DyE(Q)) IN BigToInt(BigDivFloor(DyAt(P, e), DyAt(Q, e)))
RatioIsInt(P, Q, k) == DyEq(P, DyMulInt(Q, k))

UnpairedBoundOK(sa, sb, b, which, kind, li, prec) ==
    LET P  == UNuP(sa, sb)
        Q  == UNuQ(sa, sb)
        f  == Ratiofloor(P, Q)                 \* floor(nu + 2)
        nuf == f - 2
        nuc == IF RatioIsInt(P, Q, f) THEN nuf ELSE nuf + 1
        sg == CSign(kind, li)
        E  == DyAdd(DySub(DyMulInt(DyMulInt(b, sa.n), sb.n), DyMulInt(sa.s1, sb.n)), DyMulInt(sb.s1, sa.n))
        aE == DyAbs(E)
        \* t quantiles decrease with nu: c in [TQ(ceil nu).lo, TQ(floor nu).hi]
        cm == <<MagEnc(TRow(nuc, OneKind(kind), li))[1], MagEnc(TRow(nuf, OneKind(kind), li))[2]>>
        DD == DyMul(UDa(sa), UDa(sb))              \* Da Db
        N2 == DySq(DyMulInt(DyOfInt(sa.n), sb.n))                          \* (na nb)^2
        S  == UNum(sa, sb)
        \* E^2 Da Db = c^2 S (na nb)^2 ; relative tolerance 2^-20 on E (well conditioned data, f64)
        tol == DyAdd(DyShift(aE, IF prec = 53 THEN -22 ELSE -10),
                     DyMul(U8(prec), DyMulInt(DyAdd(DyMulInt(sa.sabs, sb.n), DyMulInt(sb.sabs, sa.n)), 4)))
        lowr == IF DyLe(aE, tol) THEN DyZero ELSE DySub(aE, tol)
        uppr == DyAdd(aE, tol)
        want == IF which = "hi" THEN sg ELSE -sg
    IN /\ nuf >= 1 /\ nuc <= DenseNu
       /\ DyLe(DyMul(DySq(lowr), DD), DyMul(DyMul(DySq(cm[2]), S), N2))
       /\ DyLe(DyMul(DyMul(DySq(cm[1]), S), N2), DyMul(DySq(uppr), DD))
       /\ (DyLe(aE, tol) \/ DySign(E) = want)
\* designed pairs: the exact rational dof must be the tabulated one, and the critical value the
\* tabulated t quantile at that real dof (no bracket)
DesignedNuOK(sa, sb, pi) ==
    LET P == UNuP(sa, sb)  Q == UNuQ(sa, sb)  nd == DesignedNu(pi)
        \* P / Q = nu + 2 = (num + 2 den) / den
    IN DyEq(DyMul(P, Dy(nd[2], 0)), DyMul(Q, Dy(BigAdd(nd[1], BigMulInt(nd[2], 2)), 0)))
DesignedBoundOK(sa, sb, b, which, kind, li, prec, pi) ==
    LET sg == CSign(kind, li)
        E  == DyAdd(DySub(DyMulInt(DyMulInt(b, sa.n), sb.n), DyMulInt(sa.s1, sb.n)), DyMulInt(sb.s1, sa.n))
        aE == DyAbs(E)
        cm == MagEnc(XRow(pi, OneKind(kind), li))
        DD == DyMul(UDa(sa), UDa(sb))
        N2 == DySq(DyMulInt(DyOfInt(sa.n), sb.n))
        S  == UNum(sa, sb)
        tol == DyAdd(DyShift(aE, -26),
                     DyMul(U8(prec), DyMulInt(DyAdd(DyMulInt(sa.sabs, sb.n), DyMulInt(sb.sabs, sa.n)), 4)))
        lowr == IF DyLe(aE, tol) THEN DyZero ELSE DySub(aE, tol)
        uppr == DyAdd(aE, tol)
        want == IF which = "hi" THEN sg ELSE -sg
    IN /\ DyLe(DyMul(DySq(lowr), DD), DyMul(DyMul(DySq(cm[2]), S), N2))
       /\ DyLe(DyMul(DyMul(DySq(cm[1]), S), N2), DyMul(DySq(uppr), DD))
       /\ (DyLe(aE, tol) \/ DySign(E) = want)

\* conditioning domain of the unpaired judge (its tolerance is a fixed relative band): the computed
\* variance of each sample keeps 10 bits, kappa * 8u <= 2^-10 with kappa = n S2 / V
WellCond(st, prec) == DySign(st.v) = 0 \/ DyLe(DyShift(DyMulInt(st.s2, st.n), 13 - prec), st.v)

UnpairedNuRange(sa, sb) ==
    LET P == UNuP(sa, sb)  Q == UNuQ(sa, sb)  f == Ratiofloor(P, Q)
    IN [floor |-> f - 2, exact |-> RatioIsInt(P, Q, f)]

=============================================================================
