------------------------------ MODULE Confidence ------------------------------
(***************************************************************************)
(* stats_ci::Confidence as a value algebra: [kind, level].  Parametrised   *)
(* by the level carrier: Valid(l) <=> 0 < l < 1 and LCmp(l1, l2) \in       *)
(* {"lt","eq","gt","none"} ("none" when a NaN is involved).  The model     *)
(* instance uses a chain of level classes, the trace instance exact        *)
(* dyadic values of f64 levels.                                            *)
(***************************************************************************)
CONSTANTS Valid(_), LCmp(_, _)

CKinds == {"two", "upper", "lower"}
Conf(k, l) == [kind |-> k, level |-> l]

Paths == {"new", "new_two_sided", "new_upper", "new_lower", "try_from_f64", "try_from_f32"}
KindOfPath(p) == CASE p = "new_upper" -> "upper" [] p = "new_lower" -> "lower" [] OTHER -> "two"
Fallible(p)   == p \in {"try_from_f64", "try_from_f32"}

\* C18: a Confidence exists only for 0 < level < 1
MakeOutcome(p, l) ==
    IF Valid(l) THEN [tag |-> "ok", conf |-> Conf(KindOfPath(p), l)]
    ELSE IF Fallible(p) THEN [tag |-> "err", variant |-> "InvalidConfidenceLevel"]
    ELSE [tag |-> "panic"]

Flipped(c) == Conf(CASE c.kind = "upper" -> "lower" [] c.kind = "lower" -> "upper" [] OTHER -> "two", c.level)

KindString(c) == CASE c.kind = "two" -> "two-sided"
                   [] c.kind = "upper" -> "upper one-sided"
                   [] c.kind = "lower" -> "lower one-sided"

\* ordered exactly when of the same kind, then by level
CCmp(c, d) == IF c.kind # d.kind THEN "none" ELSE LCmp(c.level, d.level)
CEq(c, d)  == c.kind = d.kind /\ LCmp(c.level, d.level) = "eq"
OpsOf(c)   == [lt |-> c = "lt", le |-> c \in {"lt", "eq"}, gt |-> c = "gt", ge |-> c \in {"gt", "eq"}]
=============================================================================
