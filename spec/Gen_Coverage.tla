----------------------------- MODULE Gen_Coverage -----------------------------
(***************************************************************************)
(* Case generator for exact coverage (C12).                                *)
(*  PART=prop  : for n in COV_NS, level in {0.8, 0.9, 0.95, 0.99}, 3 kinds *)
(*               the interval of EVERY k in 0..n (one row)                 *)
(*  PART=quant : for the same (n, confidence) the rank interval of every   *)
(*               q = a / 200, a in 1..199                                  *)
(***************************************************************************)
EXTENDS Integers, Sequences, TLC, Json, IOUtils
Part == IF "PART" \in DOMAIN IOEnv THEN IOEnv.PART ELSE "prop"
Thorough == IF "TIER" \in DOMAIN IOEnv THEN IOEnv.TIER = "thorough" ELSE FALSE
Emit(c) == PrintT("CASE " \o ToJson(c))
LevelDecs == <<"0.001", "0.01", "0.05", "0.1", "0.2", "0.25", "0.3", "0.5", "0.75", "0.8", "0.9", "0.95",
               "0.975", "0.99", "0.995", "0.998", "0.999", "0.9995", "0.9999">>
CKinds == <<"two", "upper", "lower">>
Conf(ki, li) == [kind |-> CKinds[ki], level |-> [dec |-> LevelDecs[li]]]
Ns == IF Thorough THEN <<20, 30, 50, 100, 200, 400, 1000, 1500, 2000>> ELSE <<20, 30, 50, 100, 200, 1500>>
Levs == {10, 11, 12, 14}
B == 200

VARIABLE done
Init == done = FALSE
PropPart(d) ==
  \A i \in DOMAIN Ns : \A li \in Levs : \A ki \in 1..3 : \A k \in 0..Ns[i] :
     (Thorough \/ Ns[i] <= 200 \/ li \in {12, 14}) =>
     Emit([op |-> "prop.ci", fe |-> "ci", n |-> Ns[i], k |-> k, conf |-> Conf(ki, li), li |-> li,
           first |-> k = 0, last |-> k = Ns[i], den |-> B])
QuantPart(d) ==
  \A i \in DOMAIN Ns : \A li \in Levs : \A ki \in 1..3 : \A a \in 1..(B - 1) :
     (Thorough \/ Ns[i] <= 200 \/ li \in {12, 14}) =>
     Emit([op |-> "quant.ranks", n |-> Ns[i], a |-> a, den |-> B, q |-> [num |-> a, den |-> B],
           conf |-> Conf(ki, li), li |-> li, first |-> a = 1, last |-> a = B - 1])
Next == /\ ~done
        /\ done' = TRUE
        /\ IF Part = "prop" THEN PropPart(done) ELSE QuantPart(done)
Spec == Init /\ [][Next]_done
=============================================================================
