------------------------------ MODULE Gen_Approx ------------------------------
(***************************************************************************)
(* Case generator for approximate interval equality (C19).  Two float      *)
(* intervals of every kind combination; the second one is the first with   *)
(* each bound displaced independently by d * delta (d in 0..3); the        *)
(* tolerance is chosen below / at / above each displacement, so that the   *)
(* two bounds compare differently ("ignores one bound" becomes visible).   *)
(*   abs  : bounds 1 + d*2^-10, 2 + d*2^-10, epsilon = n * 2^-11           *)
(*   rel  : same bounds, max_relative = n * 2^-11, epsilon = 0             *)
(*   ulps : bounds 1 + j ulp, 2 + j ulp (j in 0..3), max_ulps in 0..3      *)
(***************************************************************************)
EXTENDS Integers, Sequences, TLC, Json

Emit(c) == PrintT("CASE " \o ToJson(c))
Kinds3 == {"two", "up", "low"}
D == 0..3
EpsN == {1, 2, 3, 4, 5, 7}

\* 1 + d * 2^-10  =  (1024 + d) * 2^-10 ;  2 + d * 2^-10 = (2048 + d) * 2^-10
LoV(d) == [n |-> 1024 + d, p |-> -10]
HiV(d) == [n |-> 2048 + d, p |-> -10]
\* 1 + j ulp = (2^52 + j) * 2^-52 ; 2 + j ulp(2) = (2^52 + j) * 2^-51   (limbs base 2^15 of 2^52: <<0,0,0,128>>)
LoU(j) == [s |-> 0, e |-> -52, m |-> <<j, 0, 0, 128>>]
HiU(j) == [s |-> 0, e |-> -51, m |-> <<j, 0, 0, 128>>]

Iv(k, lo, hi) == CASE k = "two" -> [k |-> "two", lo |-> lo, hi |-> hi]
                   [] k = "up"  -> [k |-> "up", lo |-> lo]
                   [] k = "low" -> [k |-> "low", hi |-> hi]

VARIABLE done
Init == done = FALSE
Next == /\ ~done
        /\ done' = TRUE
        /\ \A ka \in Kinds3, kb \in Kinds3, d1 \in D, d2 \in D :
             /\ \A n \in EpsN :
                  /\ Emit([op |-> "iv.approx", mode |-> "abs",
                           a |-> Iv(ka, LoV(0), HiV(0)), b |-> Iv(kb, LoV(d1), HiV(d2)),
                           eps |-> [n |-> n, p |-> -11]])
                  /\ Emit([op |-> "iv.approx", mode |-> "rel",
                           a |-> Iv(ka, LoV(0), HiV(0)), b |-> Iv(kb, LoV(d1), HiV(d2)),
                           eps |-> 0, max_rel |-> [n |-> n, p |-> -11]])
             \* ULP comparison with a non-zero epsilon (the absolute allowance applies whatever max_ulps is, 0 included)
             /\ \A n \in {1, 4, 7} : \A u \in {0, 1} :
                  Emit([op |-> "iv.approx", mode |-> "ulps",
                        a |-> Iv(ka, LoV(0), HiV(0)), b |-> Iv(kb, LoV(d1), HiV(d2)),
                        eps |-> [n |-> n, p |-> -11], max_ulps |-> u])
             \* relative comparison with BOTH tolerances in play on bounds of very different magnitude: the low bounds
             \* (0 and d1 * 2^-30) can only match through the absolute epsilon n * 2^-31, the high bounds (2^20 and
             \* 2^20 + d2) only through max_relative m * 2^-21 - each bound pair is judged on its own
             /\ \A n \in {1, 3, 7} : \A m \in {1, 3, 7} :
                  Emit([op |-> "iv.approx", mode |-> "rel",
                        a |-> Iv(ka, [n |-> 0, p |-> 0], [n |-> 1048576, p |-> 0]),
                        b |-> Iv(kb, [n |-> d1, p |-> -30], [n |-> 1048576 + d2, p |-> 0]),
                        eps |-> [n |-> n, p |-> -31], max_rel |-> [n |-> m, p |-> -21]])
             \* a negative epsilon: nothing is approximately equal to anything, not even an interval to itself
             /\ (d1 = 0 /\ d2 = 0) =>
                  /\ Emit([op |-> "iv.approx", mode |-> "abs", a |-> Iv(ka, LoV(0), HiV(0)), b |-> Iv(kb, LoV(0), HiV(0)),
                           eps |-> [n |-> -1, p |-> -11]])
                  /\ Emit([op |-> "iv.approx", mode |-> "ulps", a |-> Iv(ka, LoV(0), HiV(0)), b |-> Iv(kb, LoV(0), HiV(0)),
                           eps |-> [n |-> -1, p |-> -11], max_ulps |-> 0])
             /\ \A u \in 0..3 :
                  Emit([op |-> "iv.approx", mode |-> "ulps",
                        a |-> Iv(ka, LoU(0), HiU(0)), b |-> Iv(kb, LoU(d1), HiU(d2)),
                        eps |-> 0, max_ulps |-> u])
             \* both bounds near the same value: an upper and a lower one-sided interval (or a degenerate
             \* two-sided one) then have approximately equal bounds but must still not compare equal
             /\ (d1 <= d2) => \A n \in {1, 4, 7} :
                  /\ Emit([op |-> "iv.approx", mode |-> "abs",
                           a |-> Iv(ka, LoV(0), LoV(0)), b |-> Iv(kb, LoV(d1), LoV(d2)),
                           eps |-> [n |-> n, p |-> -11]])
                  /\ Emit([op |-> "iv.approx", mode |-> "rel",
                           a |-> Iv(ka, LoV(0), LoV(0)), b |-> Iv(kb, LoV(d1), LoV(d2)),
                           eps |-> 0, max_rel |-> [n |-> n, p |-> -11]])
                  /\ Emit([op |-> "iv.approx", mode |-> "ulps",
                           a |-> Iv(ka, LoU(0), LoU(0)), b |-> Iv(kb, LoU(d1), LoU(d2)),
                           eps |-> 0, max_ulps |-> n \div 2])
Spec == Init /\ [][Next]_done
=============================================================================
