INIT StatsInit
NEXT StatsNext
CHECK_DEADLOCK FALSE
