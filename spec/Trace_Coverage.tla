---------------------------- MODULE Trace_Coverage ----------------------------
(***************************************************************************)
(* Exact coverage of proportion and quantile intervals (C12).              *)
(*                                                                         *)
(* Proportions: when the row (n, confidence) -> interval of every k is     *)
(* complete, for every true p = a/B on the grid with n p, n (1-p) >= 10    *)
(* TLC forms the acceptance set {k : lo_k <= p <= hi_k} by exact           *)
(* comparison and sums the binomial weights exactly:                       *)
(*     coverage(p) = BinomSumSel(n, a, B, acceptance) / B^n.               *)
(* Quantiles: the order statistics at 0-based ranks [lo, hi] enclose the   *)
(* true q-quantile of a continuous population with probability             *)
(* P(lo+1 <= Bin(n,q) <= hi) (upper: P(Bin >= lo+1); lower: P(Bin <= hi)). *)
(*                                                                         *)
(* Clauses (slack constants are part of the specification, calibrated      *)
(* against the mathematical Wilson interval, DESIGN.md section 4 C12):     *)
(*   pointwise  (L - coverage(p)) * sqrt(m) <= C(L, kind),                 *)
(*              m = min(n p, n (1-p)), evaluated as squares of integers    *)
(*   mean       |mean_p coverage - L| <= MeanSlack(n) over >= 50 points    *)
(***************************************************************************)
EXTENDS Binomial, Float, Json, IOUtils, TLC

Rec == ndJsonDeserialize(IOEnv.TRACE)
LevelA == [li \in {10, 11, 12, 14} |-> CASE li = 10 -> 8000 [] li = 11 -> 9000 [] li = 12 -> 9500 [] li = 14 -> 9900]

\* slack constants in 1/1000
CProp(li, kind) ==
    IF kind = "two" THEN (CASE li = 10 -> 351 [] li = 11 -> 206 [] li = 12 -> 117 [] li = 14 -> 29)
    ELSE (CASE li = 10 -> 560 [] li = 11 -> 351 [] li = 12 -> 206 [] li = 14 -> 53)
CQuant(li, kind) ==
    IF kind = "two" THEN (CASE li = 10 -> 340 [] li = 11 -> 310 [] li = 12 -> 240 [] li = 14 -> 165)
    ELSE (CASE li = 10 -> 650 [] li = 11 -> 520 [] li = 12 -> 390 [] li = 14 -> 260)
OffGridFloor == IF "OFFGRID_FLOOR" \in DOMAIN IOEnv THEN atoi(IOEnv.OFFGRID_FLOOR) ELSE 4500      \* in 1/10000
\* mean slack in 1/10000
MeanSlackProp(n)  == IF n < 400 THEN 80 ELSE 30
MeanSlackQuant(n) == 100 + 20000 \div n

\* pointwise clause on integers:  X = aL * T - 10^4 * S  (numerator of L - coverage over 10^4 T)
\*   X <= 0  or  X^2 * mm * n * 10^6 <= c^2 * 10^8 * T^2 * B       (m = mm n / B)
PointOK(S, T, aL, mm, n, B, c) ==
    LET X == BigSub(BigMul(BigOfInt(aL), T), BigMul(BigOfInt(10000), S)) IN
    \/ Sgn(X) <= 0
    \/ BigLe(BigMul(BigMul(BigSq(X), BigOfInt(mm * n)), BigOfInt(1000000)),
             BigMul(BigMul(BigOfInt(c * c), BigOfInt(100000000)), BigMul(BigSq(T), BigOfInt(B))))

Min2i(x, y) == IF x <= y THEN x ELSE y
OnGrid(n, a, B) == n * a >= 10 * B /\ n * (B - a) >= 10 * B

\* thresholds of a float interval on the grid a/B:  alo = ceil(B lo), ahi = floor(B hi)
CeilInt(d)  == LET f == DyFloorNN(d) IN IF DyEq(Dy(f, 0), d) THEN BigToInt(f) ELSE BigToInt(f) + 1
FloorInt(d) == BigToInt(DyFloorNN(d))
Thresholds(iv, B) == <<CeilInt(DyMulInt(FDy(iv.lo), B)), FloorInt(DyMulInt(FDy(iv.hi), B))>>

\* fold over the grid for a complete proportion row
RECURSIVE PropFold(_, _, _, _, _, _, _)
\* row: sequence indexed by k+1 of threshold pairs <<alo, ahi>> (<<1, 0>> when the call was rejected)
PropFold(row, n, B, li, kind, a, acc) ==
    IF a >= B THEN acc
    ELSE IF ~OnGrid(n, a, B) THEN PropFold(row, n, B, li, kind, a + 1, acc)
    ELSE LET sel == [k1 \in 1..(n + 1) |-> IF row[k1][1] <= a /\ a <= row[k1][2] THEN 1 ELSE 0]
             S   == BinomSumSel(n, a, B, sel)
             ok  == PointOK(S, acc.T, LevelA[li], Min2i(a, B - a), n, B, CProp(li, kind))
         IN PropFold(row, n, B, li, kind, a + 1,
                     [sumS |-> BigAdd(acc.sumS, S), pts |-> acc.pts + 1,
                      bad |-> IF ok THEN acc.bad ELSE acc.bad \cup {a}, T |-> acc.T])

\* |10^4 * sumS - pts * aL * T| * 1 <= pts * slack(1/10^4) * T      (mean clause, slack in 1/10000)
MeanOK(sumS, pts, T, aL, slack) ==
    LET lhs == BigAbs(BigSub(BigMul(BigOfInt(10000), sumS), BigMul(BigOfInt(pts * aL), T)))
    IN BigLe(lhs, BigMul(BigOfInt(pts * slack), T))

VARIABLES l, cov, nbad, row, qacc, res
vars == <<l, cov, nbad, row, qacc, res>>
EmptyQ == [sumS |-> BigZero, pts |-> 0]
NoRes == [sumS |-> BigZero, pts |-> 0, bad |-> {}, T |-> BigZero]
Init == l = 1 /\ cov = <<>> /\ nbad = 0 /\ row = <<>> /\ qacc = EmptyQ /\ res = NoRes
Bump(c, cs) == [x \in DOMAIN c \cup cs |->
                   (IF x \in DOMAIN c THEN c[x] ELSE 0) + (IF x \in cs THEN 1 ELSE 0)]

\* the fold result is stored in res' first, so that it is evaluated once
PropStep(e) ==
    /\ row' = Append(IF e.first THEN <<>> ELSE row,
                     IF e.out.tag = "ok" THEN Thresholds(e.out.iv, e.den) ELSE <<1, 0>>)
    /\ res' = IF e.last
              THEN PropFold(row', e.n, e.den, e.li, e.conf.kind, 1,
                            [sumS |-> BigZero, pts |-> 0, bad |-> {}, T |-> BigPow(BigOfInt(e.den), e.n)])
              ELSE NoRes
    /\ LET f == {c \in {"C12.prop_pointwise"} : res'.bad # {}}
                \cup {c \in {"C12.prop_mean"} : e.last /\ res'.pts >= 50 /\
                        ~MeanOK(res'.sumS, res'.pts, res'.T, LevelA[e.li], MeanSlackProp(e.n))}
           cs == IF e.last THEN {"C12.prop_row", "C12.prop_pointwise"} \cup (IF res'.pts >= 50 THEN {"C12.prop_mean"} ELSE {})
                 ELSE {}
       IN /\ (f # {}) => PrintT("BAD " \o ToJson([id |-> e.id, failed |-> f, grid_points |-> res'.bad]))
          /\ nbad' = nbad + (IF f = {} THEN 0 ELSE 1)
          /\ cov' = Bump(cov, cs)
    /\ qacc' = qacc

QuantStep(e) ==
    LET q0   == IF e.first THEN EmptyQ ELSE qacc
        n    == e.n
        T    == BigPow(BigOfInt(e.den), n)
        use  == e.out.tag = "ok" /\ OnGrid(n, e.a, e.den)
        o    == e.out
        sel  == [k1 \in 1..(n + 1) |->
                    LET k == k1 - 1 IN
                    IF CASE o.iv.kind = "two"   -> o.iv.lo + 1 <= k /\ k <= o.iv.hi
                         [] o.iv.kind = "upper" -> o.iv.lo + 1 <= k
                         [] o.iv.kind = "lower" -> k <= o.iv.hi
                    THEN 1 ELSE 0]
        off  == e.out.tag = "ok" /\ ~OnGrid(n, e.a, e.den)
        S    == IF use \/ off THEN BinomSumSel(n, e.a, e.den, sel) ELSE BigZero
        q1   == IF use THEN [sumS |-> BigAdd(q0.sumS, S), pts |-> q0.pts + 1] ELSE q0
        f    == {c \in {"C12.quant_pointwise"} : use /\
                    ~PointOK(S, T, LevelA[e.li], Min2i(e.a, e.den - e.a), n, e.den, CQuant(e.li, e.conf.kind))}
                \* extreme quantiles (n q or n (1-q) below 10): whenever an interval is returned at all its
                \* coverage stays above L - OffGridFloor (the documented, weak floor of that region)
                \cup {c \in {"C12.quant_extreme_floor"} : off /\
                        BigLt(BigMul(BigOfInt(10000), S), BigMul(BigOfInt(LevelA[e.li] - OffGridFloor), T))}
                \cup {c \in {"C12.quant_mean"} : e.last /\ q1.pts >= 50 /\
                        ~MeanOK(q1.sumS, q1.pts, T, LevelA[e.li], MeanSlackQuant(n))}
        cs   == (IF use THEN {"C12.quant_pointwise"} ELSE {}) \cup (IF off THEN {"C12.quant_extreme_floor"} ELSE {})
                \cup (IF e.last /\ q1.pts >= 50 THEN {"C12.quant_mean"} ELSE {})
    IN /\ (f # {}) => PrintT("BAD " \o ToJson([id |-> e.id, failed |-> f]))
       /\ nbad' = nbad + (IF f = {} THEN 0 ELSE 1)
       /\ cov' = Bump(cov, cs)
       /\ qacc' = q1
       /\ row' = row
       /\ res' = NoRes

Next == /\ l <= Len(Rec)
        /\ IF Rec[l].op = "prop.ci" THEN PropStep(Rec[l]) ELSE QuantStep(Rec[l])
        /\ l' = l + 1
Spec == Init /\ [][Next]_vars
Flush == (l = Len(Rec) + 1) =>
            PrintT("COV " \o ToJson([events |-> Len(Rec), bad |-> nbad, cov |-> cov]))
=============================================================================
