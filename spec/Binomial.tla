------------------------------- MODULE Binomial -------------------------------
(***************************************************************************)
(* Exact binomial probabilities (C12).  For B ~ Bin(n, a/b):               *)
(*    P(B = k) = C(n,k) a^k (b-a)^(n-k) / b^n                              *)
(* BinomSumSel(n, a, b, sel) is the numerator of P(B \in {k : sel[k+1]=1}) *)
(* over the common denominator b^n: an exact integer (thousands of bits    *)
(* for n in the hundreds).  The definition below is the meaning; a Java    *)
(* accelerator computes the same integer (checked by MC_Binomial).         *)
(***************************************************************************)
EXTENDS BigNum

BigOne == BigOfInt(1)
RECURSIVE PascalRow(_)
PascalRow(n) == IF n = 0 THEN <<BigOne>>
                ELSE LET r == PascalRow(n - 1)
                     IN [k \in 1..(n + 1) |-> BigAdd(IF k > 1 THEN r[k - 1] ELSE BigZero,
                                                     IF k <= n THEN r[k] ELSE BigZero)]
RECURSIVE BigPowDef(_, _)
BigPowDef(x, n) == IF n = 0 THEN BigOne ELSE BigMul(x, BigPowDef(x, n - 1))
BigPow(x, n) == BigPowDef(x, n)

RECURSIVE SumSelFrom(_, _, _, _, _, _)
SumSelFrom(row, n, a, b, sel, k) ==
    IF k > n THEN BigZero
    ELSE BigAdd(IF sel[k + 1] = 1
                THEN BigMul(row[k + 1], BigMul(BigPowDef(BigOfInt(a), k), BigPowDef(BigOfInt(b - a), n - k)))
                ELSE BigZero,
                SumSelFrom(row, n, a, b, sel, k + 1))
BinomSumSelDef(n, a, b, sel) == SumSelFrom(PascalRow(n), n, a, b, sel, 0)
BinomSumSel(n, a, b, sel) == BinomSumSelDef(n, a, b, sel)
=============================================================================
