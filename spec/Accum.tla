-------------------------------- MODULE Accum --------------------------------
(***************************************************************************)
(* The incremental statistics of stats-ci as state machines over registers.*)
(*                                                                         *)
(* Abstract state of a register = what it must REPRESENT:                  *)
(*   arith / geo / harm   a bag of observations            [a, b = empty]  *)
(*   paired               a bag of differences x - y       [a, b = empty]  *)
(*   unpaired             two bags                         [a, b]          *)
(*   prop                 a bag over {0,1} (failures/successes)            *)
(*   quant                a bag of 1s (only the population matters)        *)
(* Observations are opaque value codes (integers); the harness embeds them *)
(* into floats per flavour.  Codes <= 0 are NON-POSITIVE values for geo /  *)
(* harm (0 -> 0.0, -1 -> -1.0, -2 -> -inf, -3 -> -0.0).                     *)
(*                                                                         *)
(* One operator per public call: Step(h, act) is the successor heap and    *)
(* Outcome(h, act) the allowed outcome of the call, for an action record   *)
(*   [a |-> name, r, q, t |-> registers, v |-> value, xs, ys |-> chunks]   *)
(* `+`, `+=` are bag union; queries do not appear: they are stuttering     *)
(* steps (the harness observes every register after every step, twice).    *)
(***************************************************************************)
EXTENDS Integers, Sequences, FiniteSets, Bags, TLC

Flavours == {"arith", "geo", "harm", "paired", "unpaired", "prop", "quant"}

EmptyReg == [a |-> EmptyBag, b |-> EmptyBag]

RECURSIVE BagOfSeq(_)
BagOfSeq(s) == IF s = <<>> THEN EmptyBag ELSE SetToBag({s[1]}) (+) BagOfSeq(Tail(s))

BagAdd(bag, v) == bag (+) SetToBag({v})
Count(bag) == BagCardinality(bag)

\* admissibility of a value for a flavour
Admissible(fl, v) == (fl \in {"geo", "harm"}) => v > 0

\* index of the first inadmissible element of a chunk, 0 if none
RECURSIVE FirstBad(_, _, _)
FirstBad(fl, xs, i) == IF i > Len(xs) THEN 0
                       ELSE IF ~Admissible(fl, xs[i]) THEN i ELSE FirstBad(fl, xs, i + 1)

Prefix(xs, n) == SubSeq(xs, 1, n)
RECURSIVE Flatten(_)
Flatten(ss) == IF ss = <<>> THEN <<>> ELSE ss[1] \o Flatten(Tail(ss))
Min(a, b) == IF a <= b THEN a ELSE b

RECURSIVE Diffs(_, _)
Diffs(xs, ys) == IF xs = <<>> \/ ys = <<>> THEN <<>>
                 ELSE <<xs[1] - ys[1]>> \o Diffs(Tail(xs), Tail(ys))

-----------------------------------------------------------------------------
(* Outcome of a call: "ok" or an error variant with its payload.            *)
OkOut == [tag |-> "ok"]
Outcome(fl, h, act) ==
    CASE act.a \in {"append"} ->
           IF Admissible(fl, act.v) THEN OkOut
           ELSE [tag |-> "err", variant |-> "NonPositiveValue", v |-> act.v]
      [] act.a \in {"extend", "from_iter", "extend_a", "extend_b"} ->
           LET i == FirstBad(fl, act.xs, 1) IN
           IF i = 0 THEN OkOut
           ELSE [tag |-> "err", variant |-> "NonPositiveValue", v |-> act.xs[i]]
      [] act.a = "extend_paired" ->
           IF Len(act.xs) = Len(act.ys) THEN OkOut
           ELSE [tag |-> "err", variant |-> "DifferentSampleSizes", la |-> Len(act.xs), lb |-> Len(act.ys)]
      [] OTHER -> OkOut

\* The successor register contents.  For a failing `extend` the code keeps the
\* admissible prefix (modelled here); leaving the state untouched is the admitted
\* alternative, see StepAlt.
Step(fl, h, act) ==
    LET r == act.r IN
    CASE act.a = "new"        -> [h EXCEPT ![r] = EmptyReg]
      [] act.a = "roundtrip"  -> h       \* serialize + deserialize: a stuttering step (C20)
      [] act.a = "append"     -> IF Admissible(fl, act.v)
                                 THEN [h EXCEPT ![r].a = BagAdd(@, act.v)] ELSE h
      [] act.a = "extend"     -> LET i == FirstBad(fl, act.xs, 1)
                                     ok == IF i = 0 THEN act.xs ELSE Prefix(act.xs, i - 1)
                                 IN [h EXCEPT ![r].a = @ (+) BagOfSeq(ok)]
      [] act.a = "from_iter"  -> IF FirstBad(fl, act.xs, 1) = 0
                                 THEN [h EXCEPT ![r] = [a |-> BagOfSeq(act.xs), b |-> EmptyBag]]
                                 ELSE h        \* the failed constructor yields no value
      [] act.a = "clone"      -> [h EXCEPT ![act.q] = h[r]]
      \* a parallel reduction of chunks (any schedule): the register represents the union of the chunks
      [] act.a = "par_reduce" -> [h EXCEPT ![r] = [a |-> BagOfSeq(Flatten(act.chunks)), b |-> EmptyBag]]
      [] act.a = "add_assign" -> [h EXCEPT ![r] = [a |-> h[r].a (+) h[act.q].a, b |-> h[r].b (+) h[act.q].b]]
      [] act.a = "add"        -> [h EXCEPT ![act.t] = [a |-> h[r].a (+) h[act.q].a, b |-> h[r].b (+) h[act.q].b]]
      \* paired: observations are differences
      [] act.a = "append_pair"  -> [h EXCEPT ![r].a = BagAdd(@, act.v - act.w)]
      [] act.a = "extend_tuple" -> [h EXCEPT ![r].a = @ (+) BagOfSeq(Diffs(act.xs, act.ys))]
      [] act.a = "extend_paired" -> [h EXCEPT ![r].a = @ (+) BagOfSeq(Diffs(act.xs, act.ys))]   \* common prefix
      \* unpaired: two samples
      [] act.a = "append_a"   -> [h EXCEPT ![r].a = BagAdd(@, act.v)]
      [] act.a = "append_b"   -> [h EXCEPT ![r].b = BagAdd(@, act.v)]
      [] act.a = "append_pair_u" -> [h EXCEPT ![r] = [a |-> BagAdd(h[r].a, act.v), b |-> BagAdd(h[r].b, act.w)]]
      [] act.a = "extend_a"   -> [h EXCEPT ![r].a = @ (+) BagOfSeq(act.xs)]
      [] act.a = "extend_b"   -> [h EXCEPT ![r].b = @ (+) BagOfSeq(act.xs)]
      [] act.a = "extend_ab"  -> [h EXCEPT ![r] = [a |-> h[r].a (+) BagOfSeq(act.xs), b |-> h[r].b (+) BagOfSeq(act.ys)]]
      [] act.a = "from_iter_u" -> [h EXCEPT ![r] = [a |-> BagOfSeq(act.xs), b |-> BagOfSeq(act.ys)]]
      [] act.a = "new_from"   -> [h EXCEPT ![r] = [a |-> BagOfSeq(act.xs), b |-> BagOfSeq(act.ys)]]
      [] act.a = "via_mut"    -> [h EXCEPT ![r] = [a |-> BagAdd(h[r].a, act.v), b |-> BagAdd(h[r].b, act.w)]]
      \* proportion: 1 = success, 0 = failure
      [] act.a = "add_success" -> [h EXCEPT ![r].a = BagAdd(@, 1)]
      [] act.a = "add_failure" -> [h EXCEPT ![r].a = BagAdd(@, 0)]
      [] act.a \in {"extend_bool", "extend_if"} -> [h EXCEPT ![r].a = @ (+) BagOfSeq(act.xs)]
      [] act.a = "from_iter_bool" -> [h EXCEPT ![r] = [a |-> BagOfSeq(act.xs), b |-> EmptyBag]]
      [] act.a = "new_counts"  -> [h EXCEPT ![r] = [a |-> BagOfSeq([i \in 1..act.v |-> IF i <= act.w THEN 1 ELSE 0]),
                                                    b |-> EmptyBag]]
      \* quantile::Stats::new(population)
      [] act.a = "new_pop"     -> [h EXCEPT ![r] = [a |-> BagOfSeq([i \in 1..act.v |-> 1]), b |-> EmptyBag]]

\* admitted alternative for failing bulk operations: nothing appended
StepAlt(fl, h, act) == IF Outcome(fl, h, act).tag = "ok" THEN Step(fl, h, act) ELSE h

-----------------------------------------------------------------------------
(* Sufficient statistics: what an implementation needs to keep.             *)
RECURSIVE SumOver(_, _, _)
SumOver(bag, S, pw) ==
    IF S = {} THEN 0
    ELSE LET v == CHOOSE x \in S : TRUE
         IN bag[v] * (IF pw = 0 THEN 1 ELSE IF pw = 1 THEN v ELSE v * v) + SumOver(bag, S \ {v}, pw)
Stat(bag) == [n |-> SumOver(bag, DOMAIN bag, 0), s1 |-> SumOver(bag, DOMAIN bag, 1), s2 |-> SumOver(bag, DOMAIN bag, 2)]
StatAdd(x, y) == [n |-> x.n + y.n, s1 |-> x.s1 + y.s1, s2 |-> x.s2 + y.s2]
StatZero == [n |-> 0, s1 |-> 0, s2 |-> 0]

\* exact observable quantities of a register (rationals as numerator / denominator pairs)
Successes(bag) == IF 1 \in DOMAIN bag THEN bag[1] ELSE 0
=============================================================================
