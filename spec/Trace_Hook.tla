------------------------------ MODULE Trace_Hook ------------------------------
(***************************************************************************)
(* Validation of the calls recorded by the guarded hook of                 *)
(* Arithmetic::ci_mean while the repository's OWN test-suite runs          *)
(* (impl -> spec on workloads the verification did not choose).  The hook  *)
(* records the statistics the interval was computed from, so the clause is *)
(* the interval formula itself:                                            *)
(*      bound = mean -/+ c * std_dev / sqrt(n),   c the t / normal         *)
(* quantile with n - 1 degrees of freedom of the reference tables, with    *)
(* the sign of c and the kind of the confidence.  (The statistics          *)
(* themselves are decided against exact arithmetic by C01 on generated     *)
(* samples.)  Proportion and quantile records are validated by             *)
(* Trace_Proportion / Trace_Quantile.                                      *)
(***************************************************************************)
EXTENDS Mean, Json, TLC

Rec == ndJsonDeserialize(IOEnv.TRACE)
PrecH(e) == IF e.ty = "f32" THEN 24 ELSE 53

\* D = |b - m| ;  D^2 n = c^2 sd^2  within  t = 8u (|b| + |m|) + D 2^-tq
HookBoundOK(e, b, which) ==
    LET nu == e.count - 1
        cm == CritMag(nu, e.conf.kind, e.li)
        sg == CSign(e.conf.kind, e.li)
        m  == FDy(e.mean)  sd == FDy(e.std)
        dv == DySub(b, m)
        D  == DyAbs(dv)
        t  == DyAdd(DyMul(U8(PrecH(e)), DyAdd(DyAbs(b), DyAbs(m))), DyShift(D, -CritTolExp(nu) + 1))
        lowr == IF DyLe(D, t) THEN DyZero ELSE DySub(D, t)
        uppr == DyAdd(D, t)
        want == IF which = "hi" THEN sg ELSE -sg
    IN /\ DyLe(DyMulInt(DySq(lowr), e.count), DyMul(DySq(cm[2]), DySq(sd)))
       /\ DyLe(DyMul(DySq(cm[1]), DySq(sd)), DyMulInt(DySq(uppr), e.count))
       /\ (DyLe(D, t) \/ DySign(dv) = want)

Failed(e) ==
    IF e.out.tag # "ok" THEN {}
    ELSE IF ~(e.mean.tag = "fin" /\ e.std.tag = "fin") THEN {"C01.own_tests_statistics_not_finite"}
    ELSE IF ~CritKnown(e.count - 1) THEN {}
    ELSE {c \in {"C01.own_tests_kind"} : e.out.iv.kind # e.conf.kind}
         \cup {c \in {"C01.own_tests_bound"} :
                 \/ (e.out.iv.kind # "lower" /\ ~(e.out.iv.lo.tag = "fin" /\ HookBoundOK(e, FDy(e.out.iv.lo), "lo")))
                 \/ (e.out.iv.kind # "upper" /\ ~(e.out.iv.hi.tag = "fin" /\ HookBoundOK(e, FDy(e.out.iv.hi), "hi")))}
Clauses(e) ==
    IF e.out.tag # "ok" THEN {"C01.own_tests_rejected"}
    ELSE IF ~CritKnown(e.count - 1) THEN {"C01.own_tests_dof_not_tabulated"}
    ELSE {"C01.own_tests_kind", "C01.own_tests_bound", "C01.own_tests." \o e.ty}

VARIABLES l, cov, nbad, fl
vars == <<l, cov, nbad, fl>>
Init == l = 1 /\ cov = <<>> /\ nbad = 0 /\ fl = {}
Bump(c, cs) == [x \in DOMAIN c \cup cs |->
                   (IF x \in DOMAIN c THEN c[x] ELSE 0) + (IF x \in cs THEN 1 ELSE 0)]
Next == /\ l <= Len(Rec)
        /\ fl' = Failed(Rec[l])
        /\ (fl' # {}) => PrintT("BAD " \o ToJson([id |-> Rec[l].id, failed |-> fl']))
        /\ nbad' = nbad + (IF fl' = {} THEN 0 ELSE 1)
        /\ cov' = Bump(cov, Clauses(Rec[l]))
        /\ l' = l + 1
Spec == Init /\ [][Next]_vars
Flush == (l = Len(Rec) + 1) =>
            PrintT("COV " \o ToJson([events |-> Len(Rec), bad |-> nbad, cov |-> cov]))
=============================================================================
