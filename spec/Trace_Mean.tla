------------------------------ MODULE Trace_Mean ------------------------------
(***************************************************************************)
(* Trace validation of mean and comparison intervals (C01, C04, C05, C06). *)
(* Every recorded call is judged against the exact statistics of its       *)
(* sample (module Mean); call styles of one group must agree bit for bit   *)
(* with the first ("base") event; an "exchange" event must mirror it.      *)
(***************************************************************************)
EXTENDS Mean, TClosed, Json, TLC

Rec == ndJsonDeserialize(IOEnv.TRACE)
PROP == IF "PROP" \in DOMAIN IOEnv THEN IOEnv.PROP ELSE "C01"

PrecE(e) == IF e.ty = "f32" THEN 24 ELSE 53
OkIv(e) == e.out.tag = "ok"
HasLoB(e) == e.conf.kind # "lower"
HasHiB(e) == e.conf.kind # "upper"
FinB(x) == x.tag = "fin"

ShapeOK(e) == /\ e.out.iv.kind = e.conf.kind
              /\ (HasLoB(e) => FinB(e.out.iv.lo))
              /\ (HasHiB(e) => FinB(e.out.iv.hi))
              /\ (e.conf.kind = "two" => FLe(e.out.iv.lo, e.out.iv.hi))

SameOut(o1, o2) ==
    /\ o1.tag = o2.tag
    /\ (o1.tag = "err" => o1.variant = o2.variant)
    /\ (o1.tag = "ok" => /\ o1.iv.kind = o2.iv.kind
                         /\ (o1.iv.kind # "lower" => o1.iv.lo.b = o2.iv.lo.b)
                         /\ (o1.iv.kind # "upper" => o1.iv.hi.b = o2.iv.hi.b))
\* bit-exact negation of a float (sign flipped, same magnitude; zeros of either sign)
NegBits(x, y) == /\ x.tag = "fin" /\ y.tag = "fin" /\ x.m = y.m /\ x.e = y.e /\ (x.m # <<>> => x.s # y.s)
FlipKind(k) == CASE k = "upper" -> "lower" [] k = "lower" -> "upper" [] OTHER -> "two"
Mirrored(o1, o2) ==
    /\ o1.tag = o2.tag
    /\ (o1.tag = "ok" => /\ o2.iv.kind = FlipKind(o1.iv.kind)
                         /\ (o1.iv.kind # "lower" => NegBits(o1.iv.lo, o2.iv.hi))
                         /\ (o1.iv.kind # "upper" => NegBits(o1.iv.hi, o2.iv.lo)))

ZeroIn(d) == \E i \in DOMAIN d.rle : d.rle[i][1].n = 0
\* ---------------------------------------------------------------- arithmetic mean (C01 / C06)
ArithFailed(e, P) ==
    LET st == Moments(e.data)
        nu == st.n - 1 IN
    IF e.out.tag = "panic" THEN {P \o ".no_panic"}
    ELSE IF st.n < 2 THEN {c \in {P \o ".domain"} : ~(e.out.tag = "err" /\ e.out.variant = "TooFewSamples")}
    \* every square overflows: the documented outcome is an error (non-finite statistics); an interval is judged below
    ELSE IF ~OkIv(e) /\ "ovf" \in DOMAIN e
    THEN {c \in {P \o ".domain"} : ~(e.out.tag = "err" /\ e.out.variant \in {"InvalidInputData", "FloatConversionError"})}
    ELSE IF ~OkIv(e) THEN {P \o ".domain"}
    ELSE IF ~CritKnown(nu) THEN {P \o ".generator_nu_not_in_table"}
    ELSE
      LET cm == CritMag(nu, e.conf.kind, e.li)
          sg == CSign(e.conf.kind, e.li)
          tq == CritTolExp(nu) IN
      {c \in {P \o ".level_echo"} : e.confv.level.b # LevelBits(e.li) \/ e.confv.kind # e.conf.kind}
      \cup {c \in {P \o ".shape"} : ~ShapeOK(e)}
      \cup (IF ~ShapeOK(e) THEN {} ELSE
        {c \in {P \o ".bound_lo"} : HasLoB(e) /\ ~BoundOK(st, FDy(e.out.iv.lo), "lo", cm, sg, PrecE(e), tq)}
        \cup {c \in {P \o ".bound_hi"} : HasHiB(e) /\ ~BoundOK(st, FDy(e.out.iv.hi), "hi", cm, sg, PrecE(e), tq)})
      \cup {c \in {P \o ".sample_mean"} : ~(FinB(e.stats.mean) /\ MeanOK(st, FDy(e.stats.mean), PrecE(e)))}
      \cup {c \in {P \o ".sample_variance"} : ~(FinB(e.stats.var) /\ VarLikeOK(st, FDy(e.stats.var), PrecE(e), 1))}
      \cup {c \in {P \o ".sample_std_dev"} : ~(FinB(e.stats.std) /\ VarLikeOK(st, DySq(FDy(e.stats.std)), PrecE(e), 2))}
      \cup {c \in {P \o ".sample_count"} : e.stats.count # st.n}

ArithClauses(e, P) ==
    LET st == Moments(e.data)  nu == st.n - 1 IN
    {P \o ".no_panic", P \o ".type." \o e.ty, P \o ".kind." \o e.conf.kind, P \o ".style." \o e.style}
    \cup (IF "ovf" \in DOMAIN e THEN {P \o ".squares_overflow"} ELSE {})
    \cup (IF "magnitude" \in DOMAIN e THEN {P \o ".magnitude." \o e.magnitude} ELSE {})
    \cup (IF "beyond_f32_count" \in DOMAIN e THEN {P \o ".beyond_f32_count." \o e.style} ELSE {})
    \cup (IF st.n >= 2 /\ OkIv(e) /\ ZeroIn(e.data) THEN {P \o ".zero_observation"} ELSE {})
    \cup (IF st.n >= 2 /\ OkIv(e) THEN
            {P \o ".level_echo", P \o ".shape", P \o ".sample_mean", P \o ".sample_variance", P \o ".sample_std_dev", P \o ".sample_count"}
            \cup (IF HasLoB(e) THEN {P \o ".bound_lo"} ELSE {}) \cup (IF HasHiB(e) THEN {P \o ".bound_hi"} ELSE {})
            \cup (IF CSign(e.conf.kind, e.li) < 0 THEN {P \o ".negative_critical_value"} ELSE {})
            \cup (IF nu > SwitchHi THEN {P \o ".normal_branch"} ELSE IF nu > LastT THEN {P \o ".switch_zone"} ELSE {P \o ".t_branch"})
            \cup (IF DySign(st.v) = 0 THEN {P \o ".constant_sample"} ELSE {})
            \cup (IF nu <= 8 THEN {P \o ".small_n"} ELSE {})
          ELSE {})

\* ---------------------------------------------------------------- extreme levels, even dof (C06)
\* Symmetric probe data (n odd: (n-1)/2 values -1, (n-1)/2 values +1, one 0): mean 0, V = n (n-1), so the implied critical
\* value satisfies c^2 = n b^2 exactly.  nu = n - 1 is even: the closed form decides it at the float level actually used.
ExtremeFailed(e, P) ==
    LET n  == e.n
        nu == n - 1
        L  == FDy(e.confv.level)
        A  == IF e.conf.kind = "two" THEN L ELSE DyAbs(DySub(DyMulInt(L, 2), DyOfInt(1)))
        sg == IF e.conf.kind = "two" THEN 1 ELSE DySign(DySub(DyMulInt(L, 2), DyOfInt(1)))
        okb(b, which) == /\ ClosedFormOK(nu, DyMulInt(DySq(b), n), A, 27)
                         /\ DySign(b) = (IF which = "hi" THEN sg ELSE -sg) IN
    IF e.out.tag = "panic" THEN {P \o ".no_panic"}
    ELSE IF ~OkIv(e) THEN {P \o ".domain"}
    ELSE {c \in {P \o ".shape"} : ~ShapeOK(e)}
         \cup (IF ~ShapeOK(e) THEN {} ELSE
               {c \in {P \o ".even_dof_closed_form"} :
                  \/ (HasLoB(e) /\ ~okb(FDy(e.out.iv.lo), "lo"))
                  \/ (HasHiB(e) /\ ~okb(FDy(e.out.iv.hi), "hi"))})
ExtremeClauses(e, P) == {P \o ".no_panic", P \o ".shape", P \o ".even_dof_closed_form"}
                        \cup {P \o (IF "offgrid" \in DOMAIN e THEN ".off_grid_level." ELSE ".extreme_level.") \o e.conf.kind}

\* ---------------------------------------------------------------- counts beyond 32 bits (C06 / C01)
\* The symmetric probe of 4 (-1, 1, -1, 1) merged with itself `doublings` times and delivered `extra` more times:
\* n = 4 (2^p + x) observations, mean 0, V = n^2, so the implied critical value satisfies c^2 = b^2 (n - 1) exactly,
\* and with n far beyond the switch it is the normal quantile.
BigCountN(e) == DyAdd(Dy(BigOfInt(4), e.doublings), DyOfInt(4 * e.extra))
\* the count is logged in hexadecimal (it does not fit TLC's integers): 4 (2^p + x) for p = 29 .. 31, x = 1, 2
CountHex(e) == CASE e.doublings = 29 -> (IF e.extra = 1 THEN "80000004" ELSE "80000008")
                 [] e.doublings = 30 -> (IF e.extra = 1 THEN "100000004" ELSE "100000008")
                 [] e.doublings = 31 -> (IF e.extra = 1 THEN "200000004" ELSE "200000008")
BigCountFailed(e, P) ==
    LET nm1 == DySub(BigCountN(e), DyOfInt(1))
        cm  == MagEnc(ZRow(OneKind(e.conf.kind), e.li))
        sg  == CSign(e.conf.kind, e.li)
        te  == IF e.ty = "f32" THEN -18 ELSE -38
        okb(b, which) == LET c2 == DyMul(DySq(b), nm1) IN
                         /\ DyLe(DyMul(DySq(cm[1]), DySub(DyOfInt(1), Dy(BigOfInt(1), te))), c2)
                         /\ DyLe(c2, DyMul(DySq(cm[2]), DyAdd(DyOfInt(1), Dy(BigOfInt(1), te))))
                         /\ (sg = 0 \/ DySign(b) = (IF which = "hi" THEN sg ELSE -sg)) IN
    IF e.out.tag = "panic" THEN {P \o ".no_panic"}
    ELSE IF ~OkIv(e) THEN {P \o ".domain"}
    ELSE {c \in {P \o ".shape"} : ~ShapeOK(e)}
         \cup (IF ~ShapeOK(e) THEN {} ELSE
               {c \in {P \o ".count_beyond_32_bits"} :
                  \/ (HasLoB(e) /\ ~okb(FDy(e.out.iv.lo), "lo"))
                  \/ (HasHiB(e) /\ ~okb(FDy(e.out.iv.hi), "hi"))})
         \cup {c \in {P \o ".sample_count"} : e.stats.count_hex # CountHex(e)}
BigCountClauses(e, P) == {P \o ".no_panic", P \o ".shape", P \o ".count_beyond_32_bits", P \o ".sample_count", P \o ".type." \o e.ty}

\* ---------------------------------------------------------------- paired / unpaired (C04)
\* explicit aligned samples (every block has count 1): run-length sample of the differences
DiffMoments(da, db) ==
    LET n == Len(da.rle)
        RECURSIVE Go(_)
        Go(i) == IF i > n THEN [n |-> 0, s1 |-> DyZero, s2 |-> DyZero, sabs |-> DyZero]
                 ELSE LET r == Go(i + 1)
                          x == DySub(ValDy(da.rle[i][1]), ValDy(db.rle[i][1]))
                      IN [n |-> r.n + 1, s1 |-> DyAdd(r.s1, x), s2 |-> DyAdd(r.s2, DySq(x)), sabs |-> DyAdd(r.sabs, DyAbs(x))]
        m == Go(1)
    IN [n |-> m.n, s1 |-> m.s1, s2 |-> m.s2, sabs |-> m.sabs, v |-> DySub(DyMulInt(m.s2, m.n), DySq(m.s1))]

PairedFailed(e) ==
    LET la == Len(e.data.rle)  lb == Len(e.datab.rle) IN
    IF e.out.tag = "panic" THEN {"C04.no_panic"}
    ELSE IF la # lb
    THEN {c \in {"C04.different_sizes"} :
             ~(e.out.tag = "err" /\ e.out.variant = "DifferentSampleSizes" /\ e.out.la = la /\ e.out.lb = lb)}
    ELSE IF la < 2 THEN {c \in {"C04.domain"} : ~(e.out.tag = "err" /\ e.out.variant = "TooFewSamples")}
    ELSE IF ~OkIv(e) THEN {"C04.domain"}
    ELSE LET st == DiffMoments(e.data, e.datab)
             nu == st.n - 1
             cm == CritMag(nu, e.conf.kind, e.li)
             sg == CSign(e.conf.kind, e.li) IN
         {c \in {"C04.shape"} : ~ShapeOK(e)}
         \cup (IF ~ShapeOK(e) THEN {} ELSE
           {c \in {"C04.paired_bound"} :
              \/ (HasLoB(e) /\ ~BoundOK(st, FDy(e.out.iv.lo), "lo", cm, sg, PrecE(e), CritTolExp(nu)))
              \/ (HasHiB(e) /\ ~BoundOK(st, FDy(e.out.iv.hi), "hi", cm, sg, PrecE(e), CritTolExp(nu)))})
         \cup {c \in {"C04.paired_is_arith_of_differences"} :
                 "diffci" \in DOMAIN e /\ ~SameOut(e.out, e.diffci)}

UnpairedFailed(e) ==
    LET sa == Moments(e.data)  sb == Moments(e.datab) IN
    IF e.out.tag = "panic" THEN {"C04.no_panic"}
    ELSE IF sa.n < 2 \/ sb.n < 2 THEN {c \in {"C04.domain"} : ~(e.out.tag = "err" /\ e.out.variant = "TooFewSamples")}
    \* two constant samples: the effective degrees of freedom are 0/0 - the documented outcome is InvalidInputData
    ELSE IF DySign(sa.v) = 0 /\ DySign(sb.v) = 0 /\ ~OkIv(e)
    THEN {c \in {"C04.domain"} : ~(e.out.tag = "err" /\ e.out.variant = "InvalidInputData")}
    \* the overflow zone of the dof arithmetic: InvalidInputData is the documented outcome
    ELSE IF ~OkIv(e) /\ "ovf" \in DOMAIN e THEN {c \in {"C04.domain"} : ~(e.out.tag = "err" /\ e.out.variant = "InvalidInputData")}
    ELSE IF ~OkIv(e) THEN {"C04.domain"}
    ELSE IF "designed" \in DOMAIN e
    THEN \* a designed pair: e.designed indexes the table; exchanged events see the samples swapped
         LET pa == IF e.role = "exchange" THEN sb ELSE sa
             pb == IF e.role = "exchange" THEN sa ELSE sb IN
         {c \in {"C04.shape"} : ~ShapeOK(e)}
         \cup {c \in {"C04.designed_dof"} : ~DesignedNuOK(pa, pb, e.designed)}
         \cup (IF ~ShapeOK(e) THEN {} ELSE
               {c \in {"C04.real_dof_critical_value", "C06.real_dof_critical_value"} :
                  \/ (HasLoB(e) /\ ~DesignedBoundOK(sa, sb, FDy(e.out.iv.lo), "lo", e.conf.kind, e.li, PrecE(e), e.designed))
                  \/ (HasHiB(e) /\ ~DesignedBoundOK(sa, sb, FDy(e.out.iv.hi), "hi", e.conf.kind, e.li, PrecE(e), e.designed))})
    ELSE {c \in {"C04.shape"} : ~ShapeOK(e)}
         \cup (IF ~ShapeOK(e) \/ (DySign(sa.v) = 0 /\ DySign(sb.v) = 0)
                  \/ ~WellCond(sa, PrecE(e)) \/ ~WellCond(sb, PrecE(e)) THEN {} ELSE
               LET nr == UnpairedNuRange(sa, sb) IN
               IF nr.floor < 1 \/ nr.floor + 1 > DenseNu THEN {}
               ELSE {c \in {"C04.unpaired_bound"} :
                       \/ (HasLoB(e) /\ ~UnpairedBoundOK(sa, sb, FDy(e.out.iv.lo), "lo", e.conf.kind, e.li, PrecE(e)))
                       \/ (HasHiB(e) /\ ~UnpairedBoundOK(sa, sb, FDy(e.out.iv.hi), "hi", e.conf.kind, e.li, PrecE(e)))})

\* ---------------------------------------------------------------- geometric / harmonic (C05)
NearUlp(x, y, prec, ulps) == \/ (x.tag = "fin" /\ y.tag = "fin" /\
                                 DyLe(DyAbs(DySub(FDy(x), FDy(y))), DyShift(DyMulInt(DyAbs(FDy(y)), ulps), 1 - prec)))
                             \/ (x.tag # "fin" /\ x.tag = y.tag)
\* x * y ~ 1 (reciprocal), within `ulps` units
RecipOf(x, y, prec, ulps) == x.tag = "fin" /\ y.tag = "fin" /\
    DyLe(DyAbs(DySub(DyMul(FDy(x), FDy(y)), DyOfInt(1))), Dy(BigOfInt(ulps), 1 - prec))
\* (with a few units of the smallest subnormal as absolute slack)
LeUlp(x, y, prec, ulps) == DyLe(FDy(x), DyAdd(DyAdd(FDy(y), DyShift(DyMulInt(DyAbs(FDy(y)), ulps), 1 - prec)),
                                             Dy(BigOfInt(1), IF prec = 53 THEN -1070 ELSE -145)))
Positive(x) == x.tag = "fin" /\ DySign(FDy(x)) > 0
\* G = exp(mean of ln x): the rounding error of ln x is relative to |ln x|, so the relative error of G
\* grows with |log2 G| (data far from 1); allowance in ulps, from a crude bound on |log2 g|
Log2Bound(g) == LET t == g.e + 15 * Len(g.m) IN (IF t < 0 THEN -t ELSE t) + 15
MeanIneqUlps(g) == IF g.tag = "fin" /\ g.m # <<>> THEN 8 + 4 * Log2Bound(g) ELSE 8

\* results in the subnormal range carry an absolute rounding error of half the smallest subnormal per operation
SubnormalSlack(e) == Dy(BigOfInt(1), IF PrecE(e) = 53 THEN -1071 ELSE -146)
GeoFailed(e) ==
    IF e.out.tag = "panic" THEN {"C05.no_panic"}
    ELSE IF ~e.aux_present THEN {}
    ELSE LET ar == e.auxv["arith_" \o e.conf.kind]      \* log-space interval of the same kind
             ex == IF ar.tag = "ok" THEN e.auxv["exp_" \o e.conf.kind] ELSE <<>> IN
         {c \in {"C05.geo_outcome"} : e.out.tag # ar.tag}
         \cup {c \in {"C05.geo_bounds"} : e.out.tag = "ok" /\ ar.tag = "ok" /\
                 ~(/\ e.out.iv.kind = e.conf.kind
                   /\ (HasLoB(e) => NearUlp(e.out.iv.lo, ex.lo, PrecE(e), 4))
                   /\ (HasHiB(e) => NearUlp(e.out.iv.hi, ex.hi, PrecE(e), 4)))}
         \cup {c \in {"C05.geo_mean"} : ~NearUlp(e.stats.mean, e.auxv.exp_tmean, PrecE(e), 4)}
         \cup {c \in {"C05.geo_sem"} : e.stats.sem.tag = "fin" /\ e.auxv.tsem.tag = "fin" /\
                 ~DyLe(DyAbs(DySub(FDy(e.stats.sem), DyMul(FDy(e.stats.mean), FDy(e.auxv.tsem)))),
                       DyAdd(DyShift(DyMulInt(DyAbs(FDy(e.stats.sem)), 8), 1 - PrecE(e)), SubnormalSlack(e)))}
         \* G se(ln x) is an ordinary number (two observations suffice): the reported standard error is finite
         \cup {c \in {"C05.geo_sem"} : e.stats.sem.tag # "fin" /\ e.auxv.tsem.tag = "fin" /\ e.stats.mean.tag = "fin" /\
                 DyLt(DyMul(FDy(e.stats.mean), FDy(e.auxv.tsem)), Dy(BigOfInt(1), IF PrecE(e) = 53 THEN 1000 ELSE 120))}
         \cup {c \in {"C05.mean_inequality"} :
                 e.auxv.hmean.tag = "fin" /\ e.auxv.gmean.tag = "fin" /\ e.auxv.amean.tag = "fin" /\     \* (1/x overflows for subnormal x)
                 ~(LeUlp(e.auxv.hmean, e.auxv.gmean, PrecE(e), MeanIneqUlps(e.auxv.gmean)) /\ LeUlp(e.auxv.gmean, e.auxv.amean, PrecE(e), MeanIneqUlps(e.auxv.gmean)))}

HarmFailed(e) ==
    IF e.out.tag = "panic" THEN {"C05.no_panic"}
    ELSE IF ~e.aux_present THEN {}
    ELSE LET \* upper request -> lower-kind reciprocal-space interval and vice versa
             ar == e.auxv["arith_" \o FlipKind(e.conf.kind)]
             \* the reciprocal-space bounds that matter are strictly positive
             pos == ar.tag = "ok" /\ (ar.iv.kind # "lower" => Positive(ar.iv.lo)) /\ (ar.iv.kind # "upper" => Positive(ar.iv.hi)) IN
         {c \in {"C05.harm_outcome"} : pos /\ e.out.tag # "ok"}
         \cup {c \in {"C05.harm_outcome"} : ar.tag = "err" /\ e.out.tag # "err"}
         \cup {c \in {"C05.harm_bounds"} : pos /\ e.out.tag = "ok" /\
                 ~(/\ e.out.iv.kind = e.conf.kind
                   /\ (HasLoB(e) => RecipOf(e.out.iv.lo, ar.iv.hi, PrecE(e), 4))       \* ends exchanged
                   /\ (HasHiB(e) => RecipOf(e.out.iv.hi, ar.iv.lo, PrecE(e), 4)))}
         \cup {c \in {"C05.harm_mean"} : ~RecipOf(e.stats.mean, e.auxv.tmean, PrecE(e), 4)}
         \cup {c \in {"C05.harm_sem"} : e.stats.sem.tag = "fin" /\ e.auxv.tsem.tag = "fin" /\
                 ~DyLe(DyAbs(DySub(FDy(e.stats.sem), DyMul(DySq(FDy(e.stats.mean)), FDy(e.auxv.tsem)))),
                       DyAdd(DyShift(DyMulInt(DyAbs(FDy(e.stats.sem)), 8), 1 - PrecE(e)), SubnormalSlack(e)))}
         \* H^2 se(1/x) well inside the float range: the reported standard error is a finite number
         \cup {c \in {"C05.harm_sem"} : e.stats.sem.tag # "fin" /\ e.auxv.tsem.tag = "fin" /\ e.stats.mean.tag = "fin" /\
                 DyLt(DyMul(DySq(FDy(e.stats.mean)), FDy(e.auxv.tsem)), Dy(BigOfInt(1), IF PrecE(e) = 53 THEN 1000 ELSE 120))}
         \cup {c \in {"C05.mean_inequality"} :
                 e.auxv.hmean.tag = "fin" /\ e.auxv.gmean.tag = "fin" /\ e.auxv.amean.tag = "fin" /\     \* (1/x overflows for subnormal x)
                 ~(LeUlp(e.auxv.hmean, e.auxv.gmean, PrecE(e), MeanIneqUlps(e.auxv.gmean)) /\ LeUlp(e.auxv.gmean, e.auxv.amean, PrecE(e), MeanIneqUlps(e.auxv.gmean)))}

\* ---------------------------------------------------------------- dispatch
PropOf(e) == IF PROP \in {"C06", "C09"} THEN PROP ELSE "C01"
Failed1(e) ==
    IF "extreme" \in DOMAIN e THEN ExtremeFailed(e, PropOf(e)) ELSE
    IF "doublings" \in DOMAIN e THEN BigCountFailed(e, PropOf(e)) ELSE
    CASE e.fl = "arith"    -> ArithFailed(e, PropOf(e))
      [] e.fl = "paired"   -> PairedFailed(e)
      [] e.fl = "unpaired" -> UnpairedFailed(e)
      [] e.fl = "geo"      -> GeoFailed(e)
      [] e.fl = "harm"     -> HarmFailed(e)
Clauses1(e) ==
    IF "extreme" \in DOMAIN e THEN ExtremeClauses(e, PropOf(e)) ELSE
    IF "doublings" \in DOMAIN e THEN BigCountClauses(e, PropOf(e)) ELSE
    CASE e.fl = "arith"    -> ArithClauses(e, PropOf(e))
      [] e.fl = "paired"   -> {"C04.no_panic", "C04.paired." \o e.style}
                              \cup (IF Len(e.data.rle) # Len(e.datab.rle) THEN {"C04.different_sizes"}
                                    ELSE IF OkIv(e) THEN {"C04.shape", "C04.paired_bound"}
                                         \cup (IF "diffci" \in DOMAIN e THEN {"C04.paired_is_arith_of_differences"} ELSE {})
                                    ELSE {"C04.domain"})
      [] e.fl = "unpaired" -> {"C04.no_panic", "C04.unpaired." \o e.style}
                              \cup (IF OkIv(e) /\ "designed" \in DOMAIN e THEN {"C04.shape", "C04.designed_dof", "C04.real_dof_critical_value", "C06.real_dof_critical_value"}
                                    ELSE IF OkIv(e) THEN {"C04.shape", "C04.unpaired_bound"}
                                       \cup (LET sa == Moments(e.data)  sb == Moments(e.datab) IN
                                             IF DySign(sa.v) = 0 /\ DySign(sb.v) = 0 THEN {"C04.unpaired_both_constant"}
                                             ELSE IF ~WellCond(sa, PrecE(e)) \/ ~WellCond(sb, PrecE(e)) THEN {"C04.unpaired_outside_conditioning_domain"}
                                             ELSE LET nr == UnpairedNuRange(sa, sb) IN
                                                  IF nr.floor < 1 \/ nr.floor + 1 > DenseNu THEN {"C04.unpaired_nu_outside_table"}
                                                  ELSE {"C04.unpaired_bound_evaluated"}
                                                       \cup (IF sa.n + sb.n > 100000 THEN {"C04.unpaired_small_dof_large_population"} ELSE {})
                                                       \cup (IF nr.exact THEN {"C04.unpaired_integer_nu"} ELSE {"C04.unpaired_bracketed_nu"}))
                                       \cup (IF "fam" \in DOMAIN e THEN {"C04.unpaired_family_" \o ToString(e.fam)} ELSE {})
                                    ELSE {"C04.domain"})
      [] e.fl = "geo"      -> {"C05.no_panic"} \cup (IF e.aux_present
                                 THEN {"C05.geo_outcome", "C05.geo_mean", "C05.geo_sem", "C05.mean_inequality"}
                                      \cup (IF OkIv(e) THEN {"C05.geo_bounds", "C05.kind." \o e.conf.kind} ELSE {})
                                      \cup (IF "subnormal" \in DOMAIN e /\ OkIv(e) THEN {"C05.subnormal_data_accepted"} ELSE {}) ELSE {})
      [] e.fl = "harm"     -> {"C05.no_panic"} \cup (IF e.aux_present
                                 THEN {"C05.harm_outcome", "C05.harm_mean", "C05.harm_sem", "C05.mean_inequality"}
                                      \cup (IF OkIv(e) THEN {"C05.harm_bounds", "C05.kind." \o e.conf.kind} ELSE {"C05.harm_straddle_rejected"}) ELSE {})

VARIABLES l, cov, nbad, base, fl
vars == <<l, cov, nbad, base, fl>>
Init == l = 1 /\ cov = <<>> /\ nbad = 0 /\ base = <<>> /\ fl = {}
Bump(c, cs) == [x \in DOMAIN c \cup cs |->
                   (IF x \in DOMAIN c THEN c[x] ELSE 0) + (IF x \in cs THEN 1 ELSE 0)]
GroupP(e) == CASE e.fl \in {"paired", "unpaired"} -> "C04" [] e.fl \in {"geo", "harm"} -> "C05" [] OTHER -> PropOf(e)

Next ==
  /\ l <= Len(Rec)
  /\ LET e == Rec[l] IN
     \* the judge is evaluated once (stored in fl' first)
     /\ fl' = Failed1(e)
              \cup {c \in {GroupP(e) \o ".call_styles_agree"} : e.role = "style" /\ base # <<>> /\ ~SameOut(e.out, base)}
              \* the same call on a fresh thread gives the same answer: no dependence on earlier calls
              \cup {c \in {GroupP(e) \o ".history_independent"} : "out_fresh" \in DOMAIN e /\ ~SameOut(e.out, e.out_fresh)}
              \cup {c \in {"C04.exchange_mirrors"} : e.role = "exchange" /\ base # <<>> /\ ~Mirrored(base, e.out)}
     /\ (fl' # {}) => PrintT("BAD " \o ToJson([id |-> e.id, failed |-> fl']))
     /\ nbad' = nbad + (IF fl' = {} THEN 0 ELSE 1)
     /\ cov' = Bump(cov, Clauses1(e) \cup (IF "out_fresh" \in DOMAIN e THEN {GroupP(e) \o ".history_independent"} ELSE {})
                         \cup (IF e.role = "style" THEN {GroupP(e) \o ".call_styles_agree"} ELSE {})
                         \cup (IF e.role = "exchange" THEN {"C04.exchange_mirrors"} ELSE {}))
     /\ base' = IF e.first THEN e.out ELSE base
  /\ l' = l + 1

Spec == Init /\ [][Next]_vars
Flush == (l = Len(Rec) + 1) =>
            PrintT("COV " \o ToJson([events |-> Len(Rec), bad |-> nbad, cov |-> cov]))
=============================================================================
