------------------------------- MODULE Totality -------------------------------
(***************************************************************************)
(* C11 - the decision table "input class -> allowed outcomes" of every     *)
(* interval-computing entry point.  Observations are given by CLASS:       *)
(*   [c |-> "num", v |-> k]      the finite value k (a small integer)      *)
(*   [c |-> "tenth", v |-> k]    k * 0.1  (finite, not exactly summable)   *)
(*   [c |-> "huge", v |-> k]     k * 1e200      [c |-> "tiny"]  k * 1e-200 *)
(*   [c |-> "nan"], [c |-> "inf"], [c |-> "ninf"], [c |-> "negzero"]       *)
(* The allowed outcomes of a call are a record                             *)
(*   [ok |-> whether Ok(interval) is allowed, errs |-> allowed variants]   *)
(* ("*" in errs = any error).  A panic is never allowed here; an Ok must   *)
(* always carry non-NaN bounds with low <= high (judged on the recorded    *)
(* floats).  The permitted panics of the property are separate entries.    *)
(***************************************************************************)
EXTENDS Integers, Sequences, FiniteSets

Num(k) == [c |-> "num", v |-> k]

NonFinite(x)   == x.c \in {"nan", "inf", "ninf"}
NonPositive(x) == x.c \in {"ninf", "negzero"} \/ (x.c \in {"num", "tenth", "huge", "tiny"} /\ x.v <= 0)
Extreme(x)     == x.c \in {"huge", "tiny"}

Any(P(_), xs)  == \E i \in DOMAIN xs : P(xs[i])
AllSame(xs)    == \A i \in DOMAIN xs : xs[i] = xs[1]

NumErrs == {"InvalidInputData", "FloatConversionError"}

\* arithmetic / geometric / harmonic mean of one sample
AllowedMean(fl, xs) ==
    LET n == Len(xs) IN
    IF fl \in {"geo", "harm"} /\ Any(NonPositive, xs)
    THEN [ok |-> FALSE, errs |-> {"NonPositiveValue"}]
    ELSE IF n < 2
    THEN [ok |-> FALSE, errs |-> {"TooFewSamples"} \cup (IF Any(NonFinite, xs) THEN NumErrs ELSE {})]
    ELSE IF Any(NonFinite, xs)
    THEN [ok |-> FALSE, errs |-> NumErrs]
    ELSE IF Any(Extreme, xs)
    THEN [ok |-> TRUE, errs |-> NumErrs]
    ELSE IF AllSame(xs)
    THEN [ok |-> TRUE, errs |-> {"*"}]           \* degenerate interval or an error; never NaN
    ELSE [ok |-> TRUE, errs |-> {}]

\* paired comparison: differences of two samples
AllowedPaired(xs, ys) ==
    IF Len(xs) # Len(ys)
    THEN [ok |-> FALSE, errs |-> {"DifferentSampleSizes"}]
    ELSE LET n == Len(xs)
             nonfin == Any(NonFinite, xs) \/ Any(NonFinite, ys)
             constdiff == \A i \in DOMAIN xs :
                             xs[i].c = "num" /\ ys[i].c = "num" /\ xs[i].v - ys[i].v = xs[1].v - ys[1].v
         IN IF n < 2 THEN [ok |-> FALSE, errs |-> {"TooFewSamples"} \cup (IF nonfin THEN NumErrs ELSE {})]
            ELSE IF nonfin THEN [ok |-> FALSE, errs |-> NumErrs]
            ELSE IF Any(Extreme, xs) \/ Any(Extreme, ys) THEN [ok |-> TRUE, errs |-> NumErrs]
            ELSE IF constdiff THEN [ok |-> TRUE, errs |-> {"*"}]
            ELSE [ok |-> TRUE, errs |-> {}]

\* unpaired comparison
AllowedUnpaired(xs, ys) ==
    LET nonfin == Any(NonFinite, xs) \/ Any(NonFinite, ys) IN
    IF Len(xs) < 2 \/ Len(ys) < 2
    THEN [ok |-> FALSE, errs |-> {"TooFewSamples"} \cup (IF nonfin THEN NumErrs ELSE {})]
    ELSE IF nonfin THEN [ok |-> FALSE, errs |-> NumErrs]
    ELSE IF Any(Extreme, xs) \/ Any(Extreme, ys) THEN [ok |-> TRUE, errs |-> NumErrs]
    ELSE IF AllSame(xs) /\ AllSame(ys) THEN [ok |-> TRUE, errs |-> {"*"}]
    ELSE [ok |-> TRUE, errs |-> {}]

AllowedFor(fl, xs, ys) == CASE fl = "paired" -> AllowedPaired(xs, ys)
                            [] fl = "unpaired" -> AllowedUnpaired(xs, ys)
                            [] OTHER -> AllowedMean(fl, xs)

-----------------------------------------------------------------------------
(* proportions: the documented domain of each method (also used by C02)    *)
PropDomain(method, n, k) ==
    LET lim == IF method = "wald" THEN 10 ELSE 2 IN
    IF k > n THEN "InvalidSuccesses"
    ELSE IF k < lim THEN "TooFewSuccesses"
    ELSE IF n - k < lim THEN "TooFewFailures"
    ELSE "ok"

IsSignificant(n, k) == k <= n /\ n > 30 /\ k > 5 /\ n - k > 5

\* quantile ranks: q = qa / qb exactly (qb a power of two, so q and q*n are exact in f64)
\* successes = round-half-away(q * n)
RoundHalfUp(a, b) == (2 * a + b) \div (2 * b)          \* a, b > 0
QuantDomain(n, qa, qb) ==
    IF qa <= 0 \/ qa >= qb THEN (IF n < 4 THEN {"InvalidQuantile", "TooFewSamples"} ELSE {"InvalidQuantile"})
    ELSE IF n < 4 THEN {"TooFewSamples"}
    ELSE LET k == RoundHalfUp(qa * n, qb) IN
         IF k < 2 THEN {"TooFewSuccesses"}
         ELSE IF n - k < 2 THEN {"TooFewFailures"}
         ELSE {"ok"}
=============================================================================
