--------------------------- MODULE IntervalSession ---------------------------
(***************************************************************************)
(* A client session holding interval values in registers (slots).          *)
(* One action per public operation of stats_ci::Interval.  The *outcome*   *)
(* of an operation is judged by `Judge`, a predicate on an event record    *)
(*    [op, a, b, x, k, ..., res]                                           *)
(* that states the listed properties (C07, C13, C14, C15) in terms of the  *)
(* denotational definitions of module Interval.  The same `Judge` is used  *)
(*   - by MC_Interval, on the outcomes the specification itself produces   *)
(*     with the reference closed forms (design check), and                 *)
(*   - by Trace_Interval, on the outcomes recorded from the real crate.    *)
(***************************************************************************)
EXTENDS Interval, TLC

CONSTANTS B,        \* bound positions of the model (finite set of integers)
          W,        \* window of the carrier for quantification, B plus outer witnesses
          Scalars   \* scalars for interval-scalar arithmetic

I == IntervalsOver(B)

-----------------------------------------------------------------------------
(* Specified outcome of every operation (reference closed forms).          *)

RelOps  == {"iv.intersects", "iv.includes", "iv.is_included_in"}
ScalarOps == {"add", "sub", "mul", "div", "neg"}
MakePaths == {"new", "new_upper", "new_lower", "tuple", "optpair",
              "range_incl", "range_from", "range_to_incl"}

SpecRel(op, a, b) == CASE op = "iv.intersects"     -> IntersectsRef(a, b)
                       [] op = "iv.includes"       -> IncludesRef(a, b)
                       [] op = "iv.is_included_in" -> IncludesRef(b, a)

\* iv.make: which raw inputs a construction path takes and what it returns.
SpecMake(path, haslo, lo, hashi, hi) ==
    CASE path \in {"new", "range_incl"} -> NewOutcome(lo, hi)
      [] path = "tuple"                 -> NewOutcome(lo, hi)
      [] path \in {"new_upper", "range_from"}    -> [tag |-> "ok", iv |-> Up(lo)]
      [] path \in {"new_lower", "range_to_incl"} -> [tag |-> "ok", iv |-> Low(hi)]
      [] path = "optpair"               -> FromOptPair(haslo, lo, hashi, hi)

ScalarAdmissible(op, a, k) ==
    /\ op \in {"div", "div_s4"} => k # 0
    /\ (op = "mul" /\ k = 0) => a.k = "two"

SpecScalar(op, a, k) == [tag |-> "ok", iv |-> ScalarRef(op, a, k)]
SpecBin(op, a, b)    == IF BinPanics(op, a, b) THEN [tag |-> "panic"]
                        ELSE [tag |-> "ok", iv |-> BinRef(op, a, b)]

-----------------------------------------------------------------------------
(* The judge: TRUE iff the observed result `e.res` (or `e.out`) of the      *)
(* operation described by event e is allowed by the properties.             *)

OutIsOkIv(o) == o.tag = "ok"

NaNProbe == 99          \* probe code of the float types: NaN
\* chain type "f64xb": the extreme bound positions are realised as -inf / +inf
IsEnd(x) == (\A y \in B : x <= y) \/ (\A y \in B : y <= x)
TouchesEnd(iv) == (HasLo(iv) /\ IsEnd(iv.lo)) \/ (HasHi(iv) /\ IsEnd(iv.hi))
InfiniteBoundPair(e) == "ty" \in DOMAIN e /\ e.ty = "f64xb" /\ (TouchesEnd(e.a) \/ TouchesEnd(e.b))

\* Failed clauses of an event (empty set = conforms).  Clause names are the
\* coverage / reporting keys.
Failed(e) ==
  CASE e.op = "iv.contains" /\ e.x = NaNProbe ->
         {c \in {"C07.contains", "C07.nan_probe"} : e.res}
    [] e.op = "iv.range_contains" /\ e.x = NaNProbe ->
         {c \in {"C07.range_contains", "C07.nan_probe"} : e.res}
         \cup {c \in {"C07.range_bounds"} :
                  \/ e.sb # RangeBoundOf(e.a, "start")
                  \/ e.eb # RangeBoundOf(e.a, "end")}
    [] e.op = "iv.contains" ->
         {c \in {"C07.contains"} : e.res # ContainsDef(e.a, e.x)}
    [] e.op = "iv.range_contains" ->
         {c \in {"C07.range_contains"} : e.res # ContainsDef(e.a, e.x)}
         \cup {c \in {"C07.range_bounds"} :
                  \/ e.sb # RangeBoundOf(e.a, "start")
                  \/ e.eb # RangeBoundOf(e.a, "end")}
         \cup {c \in {"C07.range_contains_consistent"} :
                  e.res # RangeContains(e.sb, e.eb, e.x)}
    [] e.op = "iv.intersects" ->
         {c \in {"C07.intersects"} : e.res # IntersectsDef(e.a, e.b, W)}
    [] e.op = "iv.includes" ->
         {c \in {"C07.includes"} : e.res # IncludesDef(e.a, e.b, W)}
    [] e.op = "iv.is_included_in" ->
         {c \in {"C07.is_included_in"} : e.res # IsIncludedInDef(e.a, e.b, W)}
    [] e.op = "iv.cmp" /\ InfiniteBoundPair(e) ->
         \* an infinity given as an explicit bound: only the denotation-free part of C15 is judged
         {c \in {"C15.partial_cmp", "C15.infinite_explicit_bound"} : (e.res.cmp = "eq") # IvEq(e.a, e.b)}
         \cup {c \in {"C15.operators"} :
                 [lt |-> e.res.lt, le |-> e.res.le, gt |-> e.res.gt,
                  ge |-> e.res.ge, eq |-> e.res.eq] # OpsOfCmp(e.res.cmp)}
         \cup {c \in {"C15.eq_consistent"} : e.res.eq # IvEq(e.a, e.b) \/ e.res.ne # ~IvEq(e.a, e.b)}    \* == and != (both are overridable)
    [] e.op = "iv.cmp" ->
         LET c0 == CmpDef(e.a, e.b, W) IN
         {c \in {"C15.partial_cmp"} : e.res.cmp # c0}
         \cup {c \in {"C15.operators"} :
                 [lt |-> e.res.lt, le |-> e.res.le, gt |-> e.res.gt,
                  ge |-> e.res.ge, eq |-> e.res.eq] # OpsOfCmp(e.res.cmp)}
         \cup {c \in {"C15.eq_consistent"} : e.res.eq # IvEq(e.a, e.b) \/ e.res.ne # ~IvEq(e.a, e.b)}    \* == and != (both are overridable)
    [] e.op = "iv.make" ->
         LET s == SpecMake(e.path, e.haslo, e.lo, e.hashi, e.hi) IN
         {c \in {"C14.make_outcome"} :
             \/ e.out.tag # s.tag
             \/ (s.tag = "err" /\ e.out.variant # s.variant)
             \/ (s.tag = "ok" /\ ~IvEq(e.out.iv, s.iv))}
         \cup {c \in {"C14.wellformed"} : e.out.tag = "ok" /\ ~WellFormed(e.out.iv)}
    [] e.op = "iv.observe" ->
         LET o == Observation(e.a)  r == e.res IN
         {c \in {"C14.predicates"} :
             \/ r.is_two_sided # o.is_two_sided \/ r.is_one_sided # o.is_one_sided
             \/ r.is_upper # o.is_upper \/ r.is_lower # o.is_lower
             \/ r.is_degenerate # o.is_degenerate}
         \cup {c \in {"C14.low_high"} :
             \/ r.low.some # o.has_low \/ r.high.some # o.has_high
             \/ (o.has_low /\ r.low.v # e.a.lo) \/ (o.has_high /\ r.high.v # e.a.hi)}
         \cup {c \in {"C14.left_right"} :
             \/ r.left.some # o.has_low \/ r.right.some # o.has_high
             \/ (o.has_low /\ r.left.v # e.a.lo) \/ (o.has_high /\ r.right.v # e.a.hi)}
         \cup {c \in {"C14.as_ref"} :
             \/ r.low_ref.some # o.has_low \/ r.high_ref.some # o.has_high
             \/ (o.has_low /\ r.low_ref.v # e.a.lo) \/ (o.has_high /\ r.high_ref.v # e.a.hi)}
         \cup {c \in {"C14.projection"} : r.has_proj /\
             (\/ r.proj_lo # (IF o.has_low THEN [tag |-> "val", v |-> e.a.lo] ELSE [tag |-> "min"])
              \/ r.proj_hi # (IF o.has_high THEN [tag |-> "val", v |-> e.a.hi] ELSE [tag |-> "max"]))}
         \cup {c \in {"C14.tuple"} : r.has_proj /\
             (\/ r.tuple_lo # (IF o.has_low THEN [tag |-> "val", v |-> e.a.lo] ELSE [tag |-> "min"])
              \/ r.tuple_hi # (IF o.has_high THEN [tag |-> "val", v |-> e.a.hi] ELSE [tag |-> "max"])
              \/ ~r.tuple_repr_eq)}
         \cup {c \in {"C14.optpair"} :
             \/ r.opt_lo.some # o.has_low \/ r.opt_hi.some # o.has_high
             \/ (o.has_low /\ r.opt_lo.v # e.a.lo) \/ (o.has_high /\ r.opt_hi.v # e.a.hi)}
         \cup {c \in {"C14.roundtrip"} : ~r.roundtrip_eq \/ ~r.clone_eq \/ ~r.as_ref_eq}
         \cup {c \in {"C14.width"} : r.has_width_fn /\
             (\/ r.width.some # o.has_width
              \/ (o.has_width /\ r.width.v # e.a.hi - e.a.lo))}
    [] e.op = "iv.eqhash" ->
         {c \in {"C14.eq"} : e.res.eq # IvEq(e.a, e.b) \/ e.res.ne # ~IvEq(e.a, e.b)}
         \cup {c \in {"C14.hash"} : e.res.has_hash /\ IvEq(e.a, e.b) /\ ~e.res.hash_eq}
         \cup {c \in {"C14.clone_from"} : ~e.res.clone_from_ok}   \* a copy made into an existing interval of any kind equals its source
    [] e.op = "iv.scalar" ->
         IF e.out.tag # "ok" THEN {"C13.scalar_total"}
         ELSE LET r == e.out.iv IN
              {c \in {"C13.scalar_wellformed"} : ~WellFormed(r)}
              \cup {c \in {"C13.scalar_kind"}  : ~ScalarKindOK(e.sop, e.a, e.k, r)}
              \cup {c \in {"C13.scalar_sound"} : ~ScalarSound(e.sop, e.a, e.k, r, W)}
              \cup {c \in {"C13.scalar_tight"} : ~ScalarTight(e.sop, e.a, e.k, r, W)}
    [] e.op = "iv.binary" ->
         IF BinPanics(e.bop, e.a, e.b)
         THEN {c \in {"C13.binary_panic"} : e.out.tag # "panic"}
         ELSE IF e.out.tag # "ok" THEN {"C13.binary_total"}
         ELSE LET r == e.out.iv IN
              {c \in {"C13.binary_wellformed"} : ~WellFormed(r)}
              \cup {c \in {"C13.binary_kind"}  : r.k # BinKind(e.bop, e.a, e.b)}
              \cup {c \in {"C13.binary_sound"} : ~BinSound(e.bop, e.a, e.b, r, W)}
              \cup {c \in {"C13.binary_tight"} : ~BinTight(e.bop, e.a, e.b, r, W)}
    [] e.op = "iv.relative_to" ->
         IF RelPanics(e.a, e.b)
         THEN {c \in {"C13.relative_panic"} : e.out.tag # "panic"}
         ELSE IF e.out.tag # "ok" THEN {"C13.relative_total"}
         ELSE LET r == e.out.iv
                  G == {e.grid[i] : i \in DOMAIN e.grid} IN
              {c \in {"C13.relative_wellformed"} : ~WellFormed(r)}
              \cup {c \in {"C13.relative_sound"} : ~RelSound(e.a, e.b, r, G, e.scale)}
              \cup {c \in {"C13.relative_tight"} : ~RelTight(e.a, e.b, r, G, e.scale)}

    [] e.op = "iv.display" ->
         {c \in {"C19.display"} : e.res # ShowRef(e.a, e.lo_s, e.hi_s)}
    [] e.op = "iv.approx" ->
         LET same == e.a.k = e.b.k
             expected == /\ same
                         /\ HasLo(e.a) => e.near_lo
                         /\ HasHi(e.a) => e.near_hi IN
         {c \in {"C19.kind_aware"} : ~same /\ e.res}
         \cup {c \in {"C19.boundwise"} : same /\ e.res # expected}
         \cup {c \in {"C19.symmetric"} : e.res_sym # e.res}
         \* an interval compared with ITSELF (the same object) is judged bound by bound like any other pair
         \cup {c \in {"C19.reflexive"} : e.res_refl # (e.self_lo /\ e.self_hi)}
         \cup {c \in {"C19.default_tolerances"} : ~e.defaults_same}
         \cup {c \in {"C19.implied_by_eq"} : e.exact_eq /\ e.self_lo /\ e.self_hi /\ ~e.res}
         \cup {c \in {"C19.ne_is_negation"} : e.res_ne # ~e.res \/ e.res_ne_sym # ~e.res_sym}

\* Clauses an event exercises (for the vacuity guard).
Clauses(e) ==
  CASE e.op = "iv.contains" /\ e.x = NaNProbe -> {"C07.contains", "C07.nan_probe"}
    [] e.op = "iv.range_contains" /\ e.x = NaNProbe -> {"C07.range_contains", "C07.range_bounds", "C07.nan_probe"}
    [] e.op = "iv.contains" -> {"C07.contains"}
    [] e.op = "iv.range_contains" -> {"C07.range_contains", "C07.range_bounds", "C07.range_contains_consistent"}
    [] e.op = "iv.intersects" -> {"C07.intersects"}
    [] e.op = "iv.includes" -> {"C07.includes"}
    [] e.op = "iv.is_included_in" -> {"C07.is_included_in"}
    [] e.op = "iv.cmp" -> {"C15.partial_cmp", "C15.operators", "C15.eq_consistent"}
                          \cup (IF InfiniteBoundPair(e) THEN {"C15.infinite_explicit_bound"} ELSE {})
    [] e.op = "iv.make" -> {"C14.make_outcome", "C14.wellformed"}
    [] e.op = "iv.observe" -> {"C14.predicates", "C14.low_high", "C14.left_right", "C14.as_ref",
                               "C14.optpair", "C14.roundtrip"}
                              \cup (IF e.res.has_proj THEN {"C14.projection", "C14.tuple"} ELSE {})
                              \cup (IF e.res.has_width_fn THEN {"C14.width"} ELSE {})
    [] e.op = "iv.eqhash" -> {"C14.eq", "C14.clone_from"} \cup (IF e.res.has_hash THEN {"C14.hash"} ELSE {})
    [] e.op = "iv.scalar" -> {"C13.scalar_wellformed", "C13.scalar_kind", "C13.scalar_sound", "C13.scalar_tight"}
    [] e.op = "iv.binary" -> IF BinPanics(e.bop, e.a, e.b) THEN {"C13.binary_panic"}
                             ELSE {"C13.binary_wellformed", "C13.binary_kind", "C13.binary_sound", "C13.binary_tight"}
    [] e.op = "iv.relative_to" -> (IF RelPanics(e.a, e.b) THEN {"C13.relative_panic"}
                                   ELSE {"C13.relative_wellformed", "C13.relative_sound", "C13.relative_tight"})
                                  \cup (IF "dexp" \in DOMAIN e /\ ~RelPanics(e.a, e.b) THEN {"C13.relative_scale_free"} ELSE {})
    [] e.op = "iv.display" -> {"C19.display"} \cup (IF e.ty \in {"f64ext", "Stringlong"} THEN {"C19.display_long_elements"} ELSE {})
    [] e.op = "iv.approx" -> {"C19.symmetric", "C19.reflexive", "C19.ne_is_negation", "C19.default_tolerances"}
                             \cup (IF ~(e.self_lo /\ e.self_hi) THEN {"C19.self_comparison_fails_elementwise"} ELSE {})
                             \cup (IF e.a.k = e.b.k THEN {"C19.boundwise"} ELSE {"C19.kind_aware"})
                             \cup (IF e.exact_eq THEN {"C19.implied_by_eq"} ELSE {})

=============================================================================
