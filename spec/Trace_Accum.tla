----------------------------- MODULE Trace_Accum -----------------------------
(***************************************************************************)
(* Trace validation of accumulation histories (C09; rejection clauses of   *)
(* C05 / C04).  The validator carries the abstract heap of module Accum    *)
(* from event to event (reset at the first step of each program), applies  *)
(* the specification's own Step to the logged action and judges:           *)
(*   outcome   - ok / error variant and payload are the specified ones     *)
(*   books     - the multiset the harness believes it delivered equals the *)
(*               abstract register (validates the harness bookkeeping)     *)
(*   count     - sample_count / population / successes = bag cardinalities *)
(*   pure      - the two consecutive observations of a register agree      *)
(*   batch     - every observation (mean, variance, sem, three CIs, ...)   *)
(*               equals the one-shot computation on the multiset:          *)
(*               identical renderings, or - the property says "up to       *)
(*               rounding error" - values within 2^13 unit roundoffs       *)
(***************************************************************************)
EXTENDS Accum, Float, Json, IOUtils

Rec == ndJsonDeserialize(IOEnv.TRACE)

BagOfRle(s) == [v \in {s[i][1] : i \in DOMAIN s} |->
                  (CHOOSE c \in {s[i][2] : i \in DOMAIN s} : \E i \in DOMAIN s : s[i] = <<v, c>>)]

EmptyHeap(n) == [r \in 1..n |-> EmptyReg]

CodeEnc(codes, c) == (CHOOSE i \in DOMAIN codes : codes[i][1] = c)

\* float-wise closeness of two recorded value lists (tolerance mode)
\* (2^13 unit roundoffs relative: 2^-40 in f64, 2^-11 in f32; a miscounted or misplaced observation of the small samples
\*  of these programs moves a statistic by a relative 1/n at least)
NearList(xs, ys, ty) ==
    /\ Len(xs) = Len(ys)
    /\ \A i \in DOMAIN xs :
          IF xs[i].tag = "fin" /\ ys[i].tag = "fin"
          THEN \/ DyNearRel(FDy(xs[i]), FDy(ys[i]), IF ty = "f32" THEN -11 ELSE -40)
               \/ DyNearAbs(FDy(xs[i]), FDy(ys[i]), Dy(BigOfInt(1), IF ty = "f32" THEN -30 ELSE -60))
          ELSE xs[i].tag = ys[i].tag

RegOK(fl, reg, rv) == /\ BagOfRle(rv.bag) = reg.a
                      /\ BagOfRle(rv.bagb) = reg.b

\* C05: a rejected observation is reported with its value (f64 bits of the value codes <= 0)
BadBits(code) == CASE code = 0 -> "0000000000000000" [] code = -1 -> "bff0000000000000"
                   [] code = -2 -> "fff0000000000000" [] code = -3 -> "8000000000000000"
                   [] OTHER -> "?"

VARIABLES l, h, cov, nbad
vars == <<l, h, cov, nbad>>
Init == l = 1 /\ h = <<>> /\ cov = <<>> /\ nbad = 0

Bump(c, cs) == [x \in DOMAIN c \cup cs |->
                   (IF x \in DOMAIN c THEN c[x] ELSE 0) + (IF x \in cs THEN 1 ELSE 0)]

Next ==
  /\ l <= Len(Rec)
  /\ LET e   == Rec[l]
         fl  == e.fl
         h0  == IF e.first THEN EmptyHeap(e.nreg) ELSE h
         so  == Outcome(fl, h0, e.act)
         h1  == Step(fl, h0, e.act)
         h2  == StepAlt(fl, h0, e.act)
         fits(hh) == \A i \in DOMAIN e.regs : RegOK(fl, hh[e.regs[i].r], e.regs[i])
         hn  == IF fits(h1) THEN h1 ELSE IF fits(h2) THEN h2 ELSE h1
         f   == {c \in {"C09.outcome"} :
                    \/ e.out.tag # so.tag
                    \/ (so.tag = "err" /\ e.out.variant # so.variant)
                    \/ (so.tag = "err" /\ so.variant = "DifferentSampleSizes"
                          /\ (e.out.la # so.la \/ e.out.lb # so.lb))}
                \cup {c \in {"C09.books"} : ~fits(hn)}
                \cup {c \in {"C09.count"} : \E i \in DOMAIN e.regs :
                        LET rv == e.regs[i]  reg == hn[rv.r] IN
                        CASE fl = "prop"  -> rv.ca # Count(reg.a) \/ rv.cb # Successes(reg.a)
                          [] fl = "quant" -> FALSE
                          [] OTHER -> rv.ca # Count(reg.a) \/ rv.cb # Count(reg.b)}
                \cup {c \in {"C09.query_pure"} : \E i \in DOMAIN e.regs : e.regs[i].obs # e.regs[i].obs2}
                \cup {c \in {"C09.batch"} : ~("nobatch" \in DOMAIN e /\ e.nobatch) /\ \E i \in DOMAIN e.regs :
                        \* identical renderings, or (the values are logged where they differ) equal up to rounding
                        IF "obsv" \in DOMAIN e.regs[i] THEN ~NearList(e.regs[i].obsv, e.regs[i].batchv, e.ty)
                        ELSE e.regs[i].obs # e.regs[i].batch}
         rej == fl \in {"geo", "harm"} /\ so.tag = "err" /\ so.variant = "NonPositiveValue"
         f05 == {c \in {"C05.rejected_with_value"} : rej /\
                    ~(e.out.tag = "err" /\ e.out.variant = "NonPositiveValue" /\ e.out.x.b = BadBits(so.v))}
                \cup {c \in {"C05.rejection_keeps_state"} : rej /\ e.act.a \in {"append", "from_iter"} /\ ~fits(h0)}
                \cup {c \in {"C05.rejection_keeps_state"} : rej /\ e.act.a = "extend" /\ ~(fits(h1) \/ fits(h2))}
         c05 == IF rej THEN {"C05.rejected_with_value", "C05.rejection_keeps_state", "C05.rejected." \o fl} ELSE {}
         rt  == e.act.a = "roundtrip"
         f20 == {c \in {"C20.roundtrip_eq"} : rt /\ ~(e.out.tag = "ok" /\ e.out.rt_eq)}
                \cup {c \in {"C20.twin"} : "twin" \in DOMAIN e /\
                         (\E i \in DOMAIN e.regs : e.regs[i].obs # e.twin[i])}
         c20 == (IF rt THEN {"C20.roundtrip_eq", "C20.roundtrip." \o fl} ELSE {})
                \cup (IF "twin" \in DOMAIN e THEN {"C20.twin"} ELSE {})
         cs  == {"C09.outcome", "C09.books", "C09.count", "C09.query_pure", "C09.batch"}
                \cup {"C09.act." \o e.act.a}
                \cup (IF so.tag = "err" THEN {"C09.rejected." \o so.variant} ELSE {})
                \cup (IF so.tag = "err" /\ h1 # h2 THEN
                        (IF fits(h1) THEN {"C09.failed_bulk_keeps_prefix"} ELSE {"C09.failed_bulk_atomic"}) ELSE {})
     IN /\ (f \cup f20 \cup f05 # {}) => PrintT("BAD " \o ToJson([id |-> e.id, failed |-> f \cup f20 \cup f05]))
        /\ nbad' = nbad + (IF f \cup f20 \cup f05 = {} THEN 0 ELSE 1)
        /\ cov' = Bump(cov, cs \cup c20 \cup c05)
        /\ h' = hn
  /\ l' = l + 1

Spec == Init /\ [][Next]_vars
Flush == (l = Len(Rec) + 1) =>
            PrintT("COV " \o ToJson([events |-> Len(Rec), bad |-> nbad, cov |-> cov]))
=============================================================================
