---------------------------- MODULE Trace_Interval ----------------------------
(***************************************************************************)
(* Trace validation for the interval algebra: every event recorded from    *)
(* the real crate is judged by IntervalSession!Failed, i.e. by the         *)
(* properties stated over the denoted sets.  One state per event.          *)
(***************************************************************************)
EXTENDS IvFamily, Json

Rec == ndJsonDeserialize(IOEnv.TRACE)

VARIABLES l, cov, nbad
vars == <<l, cov, nbad>>

Init == l = 1 /\ cov = <<>> /\ nbad = 0

Bump(c, cs) == [x \in DOMAIN c \cup cs |->
                   (IF x \in DOMAIN c THEN c[x] ELSE 0) + (IF x \in cs THEN 1 ELSE 0)]

Next == /\ l <= Len(Rec)
        /\ LET e  == Rec[l]
               f  == Failed(e)
               cs == Clauses(e) IN
             /\ (f # {}) => PrintT("BAD " \o ToJson([id |-> e.id, failed |-> f]))
             /\ nbad' = nbad + (IF f = {} THEN 0 ELSE 1)
             /\ cov' = Bump(cov, cs)
        /\ l' = l + 1

Spec == Init /\ [][Next]_vars

\* fires once, when the whole trace has been consumed
Flush == (l = Len(Rec) + 1) =>
            PrintT("COV " \o ToJson([events |-> Len(Rec), bad |-> nbad, cov |-> cov]))
=============================================================================
