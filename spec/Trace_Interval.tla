---------------------------- MODULE Trace_Interval ----------------------------
(***************************************************************************)
(* Trace validation for the interval algebra: every event recorded from    *)
(* the real crate is judged by IntervalSession!Failed, i.e. by the         *)
(* properties stated over the denoted sets.  One state per event.          *)
(***************************************************************************)
EXTENDS IvFamily, Float, Json

Rec == ndJsonDeserialize(IOEnv.TRACE)

\* C19, exact re-evaluation of the element-level predicate for the absolute mode:
\* |x - y| <= epsilon over the exact values of the recorded floats.
AbsNear(x, y, eps) == DyNearAbs(FDy(x), FDy(y), FDy(eps))
ApproxExact(e) ==
    IF e.op = "iv.approx" /\ e.mode = "abs" /\ e.a.k = e.b.k
    THEN {c \in {"C19.abs_exact"} :
            \/ (HasLo(e.a) /\ e.near_lo # AbsNear(e.alo, e.blo, e.epsv))
            \/ (HasHi(e.a) /\ e.near_hi # AbsNear(e.ahi, e.bhi, e.epsv))}
    ELSE {}
ApproxClauses(e) ==
    (IF e.op = "iv.approx" /\ e.mode = "abs" /\ e.a.k = e.b.k THEN {"C19.abs_exact"} ELSE {})
    \cup (IF e.op = "iv.approx" /\ e.a.k = "two" /\ e.b.k = "two"
          THEN (IF e.near_lo /\ ~e.near_hi THEN {"C19.only_low_near"} ELSE {})
               \cup (IF ~e.near_lo /\ e.near_hi THEN {"C19.only_high_near"} ELSE {})
          ELSE {})

\* C13, relative_to where the quotients round: the documented bounds [(x-b)/b, (y-a)/a] with x-b exact, so each
\* bound must be the correctly rounded quotient:  |f * den - num| <= halfulp(f) * den
HalfUlp(f) == IF f.m = <<>> THEN DyZero ELSE Dy(BigOfInt(1), f.e + BigBits(BigOfLimbs(1, f.m)) - 54)
RoundedQuot(f, num, den) ==
    /\ f.tag = "fin"
    /\ DyLe(DyAbs(DySub(DyMulInt(FDy(f), den), DyOfInt(num))), DyMulInt(HalfUlp(f), den))
RelRoundFailed(e) ==
    IF e.op # "iv.relative_round" THEN {}
    ELSE IF RelPanics(e.a, e.b) THEN {c \in {"C13.relative_panic"} : e.out.tag # "panic"}
    ELSE IF e.out.tag # "ok" THEN {"C13.relative_total"}
    ELSE LET r == e.out.iv
             kind == IF e.a.k = "two" /\ e.b.k = "two" THEN "two" ELSE IF HasHi(e.a) /\ HasLo(e.b) THEN "low" ELSE "up" IN
         {c \in {"C13.relative_kind"} : r.k # kind}
         \cup {c \in {"C13.relative_correctly_rounded"} : r.k = kind /\
                 ~(/\ (kind # "low" => RoundedQuot(r.lo, e.a.lo - e.b.hi, e.b.hi))
                   /\ (kind # "up"  => RoundedQuot(r.hi, e.a.hi - e.b.lo, e.b.lo)))}
RelRoundClauses(e) ==
    IF e.op # "iv.relative_round" THEN {}
    ELSE IF RelPanics(e.a, e.b) THEN {"C13.relative_panic"} ELSE {"C13.relative_kind", "C13.relative_correctly_rounded"}

\* C14 on float intervals whose bounds are infinities (a closed set of the extended reals: [-inf,-inf] and [+inf,+inf] are
\* degenerate two-sided intervals): constructor outcome, predicates, width and accessors stay mutually consistent
InfFailed(e) ==
    IF e.op # "iv.infinite_bounds" THEN {}
    ELSE IF e.out.tag = "panic" THEN {"C14.make_outcome"}
    ELSE IF e.lo > e.hi THEN {c \in {"C14.make_outcome"} : e.out.tag # "err"}
    ELSE IF e.out.tag # "ok" THEN {"C14.make_outcome"}
    ELSE {c \in {"C14.predicates"} : ~e.out.two \/ e.out.degenerate # (e.lo = e.hi)}
         \cup {c \in {"C14.width"} : ~e.out.width_some}
         \cup {c \in {"C14.low_high"} : ~(e.out.has_low /\ e.out.has_high /\ e.out.low_same /\ e.out.high_same)}
         \cup {c \in {"C14.roundtrip"} : ~(e.out.contains_lo /\ e.out.contains_hi /\ e.out.copy_eq)}
InfClauses(e) == IF e.op # "iv.infinite_bounds" THEN {} ELSE {"C14.infinite_bounds", "C14.make_outcome"}

VARIABLES l, cov, nbad
vars == <<l, cov, nbad>>

Init == l = 1 /\ cov = <<>> /\ nbad = 0

Bump(c, cs) == [x \in DOMAIN c \cup cs |->
                   (IF x \in DOMAIN c THEN c[x] ELSE 0) + (IF x \in cs THEN 1 ELSE 0)]

Next == /\ l <= Len(Rec)
        /\ LET e  == Rec[l]
               f  == IF e.op = "iv.relative_round" THEN RelRoundFailed(e) ELSE IF e.op = "iv.infinite_bounds" THEN InfFailed(e)
                     ELSE Failed(e) \cup ApproxExact(e)
               cs == IF e.op = "iv.relative_round" THEN RelRoundClauses(e) ELSE IF e.op = "iv.infinite_bounds" THEN InfClauses(e)
                     ELSE Clauses(e) \cup ApproxClauses(e) IN
             /\ (f # {}) => PrintT("BAD " \o ToJson([id |-> e.id, failed |-> f]))
             /\ nbad' = nbad + (IF f = {} THEN 0 ELSE 1)
             /\ cov' = Bump(cov, cs)
        /\ l' = l + 1

Spec == Init /\ [][Next]_vars

\* fires once, when the whole trace has been consumed
Flush == (l = Len(Rec) + 1) =>
            PrintT("COV " \o ToJson([events |-> Len(Rec), bad |-> nbad, cov |-> cov]))
=============================================================================
