--------------------------- MODULE Trace_Proportion ---------------------------
(***************************************************************************)
(* Trace validation of proportion intervals.                               *)
(*  C02  per event: documented domain (outcome class), Wilson / Wald       *)
(*       bounds are the roots of the score / Wald polynomial (rigorous     *)
(*       enclosure), bounds in [0,1] around k/n, far ends exactly 0 / 1;   *)
(*       every front-end returns the interval of ci_wilson bit-for-bit.    *)
(*  C17  relations over the recorded table: monotone in k, mirror symmetry *)
(*       k <-> n-k (upper <-> lower), shrinking with the multiplier m,     *)
(*       widening with the level, midpoint between k/n and 1/2.            *)
(*  C06  the z implied by the interval: covered by the root enclosure.     *)
(* The validator carries the rows of the current (n, level, method) unit.  *)
(***************************************************************************)
EXTENDS Proportion, Totality, Json, TLC

Rec == ndJsonDeserialize(IOEnv.TRACE)

Tol50 == Dy(BigOfInt(1), -50)
Half  == Dy(BigOfInt(1), -1)

OkIv(e) == e.out.tag = "ok"
Lo(e) == FDy(e.out.iv.lo)
Hi(e) == FDy(e.out.iv.hi)
\* the finite, data-dependent bounds of an event's interval for its confidence kind
HasLoB(e) == e.conf.kind # "lower"
HasHiB(e) == e.conf.kind # "upper"

\* --- C02, per event -------------------------------------------------------
Method(e) == IF e.fe = "ci_z_normal" THEN "wald" ELSE "wilson"
RatioZero(e) == e.fe = "ci_wilson_ratio" /\ e.k = 0      \* ratio 0.0: the ratio form's own domain error
C02Failed(e) ==
    LET d == IF RatioZero(e) THEN "NonPositiveValue" ELSE PropDomain(Method(e), e.n, e.k) IN
    IF e.out.tag = "panic" THEN {"C02.no_panic"}
    ELSE IF e.out.tag = "err" THEN {c \in {"C02.domain"} : e.out.variant # d}
    ELSE \* ok
      {c \in {"C02.domain"} : d # "ok"}
      \cup (IF d # "ok" THEN {} ELSE
        {c \in {"C02.level_echo"} : e.confv.level.b # LevelBits(e.li) \/ e.confv.kind # e.conf.kind}
        \cup {c \in {"C02.shape"} : ~ShapeOK(e.out.iv, e.conf.kind)}
        \cup {c \in {"C02.in01"} : ~(IsFin(e.out.iv.lo) /\ IsFin(e.out.iv.hi) /\ DyLe(Lo(e), Hi(e))
                                     /\ (Method(e) = "wilson" => In01(Lo(e)) /\ In01(Hi(e))))}
        \cup {c \in {"C02.root_lo"} : HasLoB(e) /\ ~BoundOK(Method(e), e.n, e.k, "lo", Lo(e), e.conf.kind, e.li)}
        \cup {c \in {"C02.root_hi"} : HasHiB(e) /\ ~BoundOK(Method(e), e.n, e.k, "hi", Hi(e), e.conf.kind, e.li)}
        \cup {c \in {"C02.around_estimate"} : e.conf.kind = "two" /\ ~(LeKN(Lo(e), e.n, e.k) /\ GeKN(Hi(e), e.n, e.k))})

\* populations beyond 2^32: n = a 2^p, k = b 2^q with 10 <= k <= n - 10 (every method admits them)
BigND(e) == IF "nplus" \in DOMAIN e THEN DyAdd(Dy(BigOfInt(e.nbig.a), e.nbig.p), DyOfInt(e.nplus)) ELSE Dy(BigOfInt(e.nbig.a), e.nbig.p)
BigKD(e) == IF "kminus" \in DOMAIN e THEN DySub(BigND(e), DyOfInt(e.kminus)) ELSE Dy(BigOfInt(e.kbig.a), e.kbig.p)
\* the documented domain, decided on the integer counts
BigDomain(e) ==
    LET N == BigND(e)  K == BigKD(e)  lim == DyOfInt(IF Method(e) = "wald" THEN 10 ELSE 2) IN
    IF DyLt(N, K) THEN "InvalidSuccesses"
    ELSE IF DyLt(K, lim) THEN "TooFewSuccesses"
    ELSE IF DyLt(DySub(N, K), lim) THEN "TooFewFailures" ELSE "ok"
BigFailed(e) ==
    IF e.out.tag = "panic" THEN {"C02.no_panic"}
    ELSE IF e.out.tag = "err" THEN {c \in {"C02.domain"} : e.out.variant # BigDomain(e)}
    ELSE IF BigDomain(e) # "ok" THEN {"C02.domain"}
    ELSE {c \in {"C02.shape"} : ~ShapeOK(e.out.iv, e.conf.kind)}
         \cup {c \in {"C02.in01"} : ~(IsFin(e.out.iv.lo) /\ IsFin(e.out.iv.hi) /\ DyLe(Lo(e), Hi(e)) /\ In01(Lo(e)) /\ In01(Hi(e)))}
         \* (at the edge of the domain of a population beyond 2^53 both roots lie within 2^-52 of 0 or 1, far inside the
         \*  resolution D of the root judge: those events decide the domain, the shape and the range only)
         \cup {c \in {"C02.root_lo"} : "nplus" \notin DOMAIN e /\ HasLoB(e) /\ ~BoundOKD(Method(e), BigND(e), BigKD(e), "lo", Lo(e), e.conf.kind, e.li)}
         \cup {c \in {"C02.root_hi"} : "nplus" \notin DOMAIN e /\ HasHiB(e) /\ ~BoundOKD(Method(e), BigND(e), BigKD(e), "hi", Hi(e), e.conf.kind, e.li)}
BigClauses(e) ==
    {"C02.no_panic", "C02.population_beyond_32_bits"}
    \cup (IF "nplus" \in DOMAIN e THEN {"C02.population_beyond_53_bits." \o BigDomain(e)} ELSE {})
    \cup (IF OkIv(e) THEN {"C02.shape", "C02.in01"} \cup (IF HasLoB(e) /\ "nplus" \notin DOMAIN e THEN {"C02.root_lo"} ELSE {})
                                           \cup (IF HasHiB(e) /\ "nplus" \notin DOMAIN e THEN {"C02.root_hi"} ELSE {})
          ELSE {})

\* confidence levels far outside the grid: the z^2 enclosure comes from the extreme-level rows
XKind(e) == IF e.conf.kind = "two" THEN "two" ELSE "one"
XZ2(e) == LET m == MagEnc(ZXRow(XKind(e), e.xi)) IN <<DySq(m[1]), DySq(m[2])>>
XFailed(e) ==
    IF e.out.tag = "panic" THEN {"C02.no_panic"}
    ELSE IF e.out.tag = "err" THEN {"C02.domain"}
    ELSE {c \in {"C02.shape"} : ~ShapeOK(e.out.iv, e.conf.kind)}
         \cup {c \in {"C02.level_echo"} : e.confv.level.b # XLevelBits(e.xi) \/ e.confv.kind # e.conf.kind}
         \cup {c \in {"C02.in01"} : ~(IsFin(e.out.iv.lo) /\ IsFin(e.out.iv.hi) /\ DyLe(Lo(e), Hi(e))
                                      /\ (Method(e) = "wilson" => In01(Lo(e)) /\ In01(Hi(e))))}
         \cup {c \in {"C02.root_lo"} : HasLoB(e) /\ ~BoundOKZ(Method(e), e.n, e.k, "lo", Lo(e), ZXRow(XKind(e), e.xi).sg, XZ2(e))}
         \cup {c \in {"C02.root_hi"} : HasHiB(e) /\ ~BoundOKZ(Method(e), e.n, e.k, "hi", Hi(e), ZXRow(XKind(e), e.xi).sg, XZ2(e))}
XClauses(e) ==
    {"C02.no_panic", "C02.extreme_level", "C02.extreme_level." \o e.conf.kind}
    \cup (IF OkIv(e) THEN {"C02.shape", "C02.in01"} \cup (IF HasLoB(e) THEN {"C02.root_lo"} ELSE {}) \cup (IF HasHiB(e) THEN {"C02.root_hi"} ELSE {})
          ELSE {})

SameOut(o1, o2) ==
    /\ o1.tag = o2.tag
    /\ (o1.tag = "err" => o1.variant = o2.variant)
    /\ (o1.tag = "ok" => o1.iv.kind = o2.iv.kind /\ o1.iv.lo.b = o2.iv.lo.b /\ o1.iv.hi.b = o2.iv.hi.b)

\* --- C17, relations -------------------------------------------------------
Near1Minus(x, y) == DyNearAbs(x, DySub(One, y), Tol50)       \* x ~ 1 - y

\* the exact Wald bound of this event is outside [0,1]: 0 (resp. 1) lies strictly inside the roots
WaldLeavesUnit(e) ==
    LET z2e == Z2Enc(e.conf.kind, e.li) IN
    \/ (HasLoB(e) /\ DySign(Lo(e)) < 0 /\ DySign(Wald(e.n, e.k, DyZero, z2e[1])) < 0)
    \/ (HasHiB(e) /\ DyLt(One, Hi(e)) /\ DySign(Wald(e.n, e.k, One, z2e[1])) < 0)
    \/ (HasLoB(e) /\ DyLt(One, Lo(e)) /\ DySign(Wald(e.n, e.k, One, z2e[1])) < 0)
    \/ (HasHiB(e) /\ DySign(Hi(e)) < 0 /\ DySign(Wald(e.n, e.k, DyZero, z2e[1])) < 0)

C17Row(e, rows) ==
    IF ~OkIv(e) THEN {} ELSE
    LET kd   == e.conf.kind
        row  == rows[kd]
        prev == IF (e.k - 1) \in DOMAIN row THEN row[e.k - 1] ELSE <<>>
        mk   == IF kd = "two" THEN "two" ELSE IF kd = "upper" THEN "lower" ELSE "upper"
        mrow == rows[mk]
        mir  == IF (e.n - e.k) \in DOMAIN mrow /\ (mk # kd \/ e.n - e.k # e.k) THEN mrow[e.n - e.k] ELSE <<>>
    IN {c \in {"C17.monotone_in_k"} : prev # <<>> /\ ~(DyLe(prev[1], Lo(e)) /\ DyLe(prev[2], Hi(e)))}
       \cup {c \in {"C17.mirror"} : mir # <<>> /\ ~(Near1Minus(Lo(e), mir[2]) /\ Near1Minus(Hi(e), mir[1]))}
       \cup (IF In01(Lo(e)) /\ In01(Hi(e)) THEN {}
             ELSE IF Method(e) = "wald" /\ WaldLeavesUnit(e) THEN {"C17.wald_formula_leaves_unit_interval"}
             ELSE {"C17.in01"})
       \cup {c \in {"C17.midpoint"} : kd = "two" /\ Method(e) = "wilson" /\
               LET s2 == DyAdd(Lo(e), Hi(e))       \* 2 * midpoint
                   a == DyMulInt(s2, e.n)          \* 2 n mid   vs  2 k  and  n
                   k2 == DyOfInt(2 * e.k)  nn == DyOfInt(e.n)
                   tolN == DyMulInt(Tol50, 2 * e.n)
               IN ~(\/ (DyLe(DySub(k2, tolN), a) /\ DyLe(a, DyAdd(nn, tolN)))
                    \/ (DyLe(DySub(nn, tolN), a) /\ DyLe(a, DyAdd(k2, tolN))))}
C17RowClauses(e, rows) ==
    IF ~OkIv(e) THEN {} ELSE
    LET kd == e.conf.kind
        mk == IF kd = "two" THEN "two" ELSE IF kd = "upper" THEN "lower" ELSE "upper" IN
    {"C17.in01"}
    \cup (IF (e.k - 1) \in DOMAIN rows[kd] THEN {"C17.monotone_in_k"} ELSE {})
    \cup (IF (e.n - e.k) \in DOMAIN rows[mk] /\ (mk # kd \/ e.n - e.k # e.k)
          THEN {"C17.mirror", "C17.mirror." \o kd} ELSE {})
    \cup (IF kd = "two" /\ Method(e) = "wilson" THEN {"C17.midpoint"} ELSE {})

\* distance of the data-dependent bound(s) from the estimate, as width (two-sided) or |bound - k/n| * n
Extent(e) == CASE e.conf.kind = "two"   -> DyMulInt(DySub(Hi(e), Lo(e)), 1)
               [] e.conf.kind = "upper" -> DySub(Hi(e), Lo(e))     \* = 1 - lo : shrinks as lo grows
               [] e.conf.kind = "lower" -> DySub(Hi(e), Lo(e))     \* = hi - 0
\* For one-sided kinds at levels below 1/2 the bound lies on the other side of k/n and the
\* containment relations reverse; the generator uses levels >= 1/2 in the mult group and the
\* validator evaluates nesting for all levels (it holds for every level: the bound is monotone in z).
C17Mult(e, prev) ==
    IF ~OkIv(e) \/ prev = <<>> THEN {} ELSE
    {c \in {"C17.shrinks_with_n"} :
        CASE e.conf.kind = "two"   -> ~DyLt(DySub(Hi(e), Lo(e)), DySub(prev[2], prev[1]))
          [] e.conf.kind = "upper" -> ~(IF CritSign("one", e.li) >= 0 THEN DyLe(prev[1], Lo(e)) ELSE DyLe(Lo(e), prev[1]))
          [] e.conf.kind = "lower" -> ~(IF CritSign("one", e.li) >= 0 THEN DyLe(Hi(e), prev[2]) ELSE DyLe(prev[2], Hi(e)))}
C17Levels(e, prev) ==
    IF ~OkIv(e) \/ prev = <<>> THEN {} ELSE
    {c \in {"C17.wider_with_level"} :
        ~(DyLe(Lo(e), prev[1]) /\ DyLe(prev[2], Hi(e))
          /\ (e.conf.kind = "two" => DyLt(DySub(prev[2], prev[1]), DySub(Hi(e), Lo(e)))))}

EmptyRows == [kd \in {"two", "upper", "lower"} |-> <<>>]

VARIABLES l, cov, nbad, rows, ref, prev
vars == <<l, cov, nbad, rows, ref, prev>>
Init == l = 1 /\ cov = <<>> /\ nbad = 0 /\ rows = EmptyRows /\ ref = <<>> /\ prev = <<>>
Bump(c, cs) == [x \in DOMAIN c \cup cs |->
                   (IF x \in DOMAIN c THEN c[x] ELSE 0) + (IF x \in cs THEN 1 ELSE 0)]
IsRef(e) == e.fe \in {"ci_wilson", "ci_z_normal"}

Next ==
  /\ l <= Len(Rec)
  /\ LET e     == Rec[l]
         rows0 == IF e.first THEN EmptyRows
                  ELSE IF e.rowstart THEN [rows EXCEPT ![e.conf.kind] = <<>>] ELSE rows
         prev0 == IF e.rowstart THEN <<>> ELSE prev
         xl    == e.op = "prop.xlev"
         big   == e.op = "prop.big" \/ xl
         f02   == (IF xl THEN (IF IsRef(e) THEN XFailed(e) ELSE {}) ELSE IF big THEN (IF IsRef(e) THEN BigFailed(e) ELSE {}) ELSE C02Failed(e))
                  \cup {c \in {"C02.front_end"} : ~IsRef(e) /\ (big \/ ~RatioZero(e)) /\ ref # <<>> /\ ~SameOut(e.out, ref)}
         \* the laws of C17 are established on the rows of ci_wilson / ci_z_normal; the other entry points
         \* (the alias `ci`, Stats::ci, ci_true, ...) inherit them by returning the same interval
         f17   == IF ~IsRef(e) THEN {c \in {"C17.entry_points_agree"} : (big \/ ~RatioZero(e)) /\ ref # <<>> /\ ~SameOut(e.out, ref)}
                  ELSE IF big THEN {}
                  ELSE IF e.grp = "row" THEN C17Row(e, rows0)
                  ELSE IF e.grp = "mult" THEN C17Mult(e, prev0)
                  ELSE IF e.grp = "levels" THEN C17Levels(e, prev0)
                  ELSE {}
         f     == f02 \cup f17
                  \cup {c \in {"C02.history_independent", "C17.history_independent"} : "out_fresh" \in DOMAIN e /\ ~SameOut(e.out, e.out_fresh)}
         cs    == IF big THEN (IF xl THEN XClauses(e) ELSE BigClauses(e)) \cup (IF ~IsRef(e) THEN {"C02.front_end", "C17.entry_points_agree"} ELSE {}) ELSE
                  {"C02.domain", "C02.no_panic", "C02.domain." \o PropDomain(Method(e), e.n, e.k) \o "." \o Method(e)}
                  \cup (IF OkIv(e) THEN {"C02.shape", "C02.in01", "C02.level_echo", "C02.method." \o Method(e),
                                          "C02.kind." \o e.conf.kind}
                                         \cup (IF HasLoB(e) THEN {"C02.root_lo"} ELSE {})
                                         \cup (IF HasHiB(e) THEN {"C02.root_hi"} ELSE {})
                                         \cup (IF e.conf.kind = "two" THEN {"C02.around_estimate"} ELSE {})
                                         \cup (IF e.conf.kind # "two" /\ CritSign("one", e.li) < 0 THEN {"C02.negative_z"} ELSE {})
                                         \cup (IF e.conf.kind # "two" /\ CritSign("one", e.li) = 0 THEN {"C02.zero_z"} ELSE {})
                        ELSE {})
                  \cup (IF ~IsRef(e) THEN {"C02.front_end", "C02.front_end." \o e.fe, "C17.entry_points_agree"} ELSE {})
                  \cup (IF ~IsRef(e) /\ e.n > 100000 THEN {"C17.entry_points_agree.large_population"} ELSE {})
                  \cup (IF "tie" \in DOMAIN e /\ e.tie THEN {"C02.ratio_rounding_tie"} ELSE {})
                  \cup (IF IsRef(e) /\ e.grp = "row" THEN C17RowClauses(e, rows0) ELSE {})
                  \cup (IF IsRef(e) /\ e.grp = "mult" /\ OkIv(e) /\ prev0 # <<>> THEN {"C17.shrinks_with_n"} ELSE {})
                  \cup (IF IsRef(e) /\ e.grp = "levels" /\ OkIv(e) /\ prev0 # <<>> THEN {"C17.wider_with_level"} ELSE {})
     IN /\ (f # {}) => PrintT("BAD " \o ToJson([id |-> e.id, failed |-> f]))
        /\ nbad' = nbad + (IF f = {} THEN 0 ELSE 1)
        /\ cov' = Bump(cov, cs \cup (IF "out_fresh" \in DOMAIN e THEN {"C02.history_independent", "C17.history_independent"} ELSE {}))
        /\ ref' = IF IsRef(e) THEN e.out ELSE ref
        /\ rows' = IF ~big /\ IsRef(e) /\ OkIv(e) /\ e.grp = "row"
                   THEN [rows0 EXCEPT ![e.conf.kind] = (e.k :> <<Lo(e), Hi(e)>>) @@ rows0[e.conf.kind]]
                   ELSE rows0
        /\ prev' = IF IsRef(e) THEN (IF OkIv(e) THEN <<Lo(e), Hi(e)>> ELSE <<>>) ELSE prev0
  /\ l' = l + 1

Spec == Init /\ [][Next]_vars
Flush == (l = Len(Rec) + 1) =>
            PrintT("COV " \o ToJson([events |-> Len(Rec), bad |-> nbad, cov |-> cov]))
=============================================================================
