SPECIFICATION Spec
INVARIANTS
  OverrideIsDef
  SumsToOne
  Complement
  PascalSym
CHECK_DEADLOCK FALSE
