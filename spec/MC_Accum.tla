------------------------------ MODULE MC_Accum ------------------------------
(***************************************************************************)
(* Model-level check of the accumulation machines.                         *)
(*                                                                         *)
(* Two machines run in lockstep: the abstract one (`abs`: each register is *)
(* the bag of observations it must represent, module Accum) and the        *)
(* sufficient-statistics one the crate implements (`impl`: count, sum, sum *)
(* of squares, updated component-wise by append and merge).  TLC checks    *)
(* over all programs of the bounded model that                             *)
(*   - impl[r] = Stat(abs[r]) is an invariant (the statistics are a monoid *)
(*     homomorphism of bag union: any history = batch),                    *)
(*   - the empty register is neutral for merging, merging is commutative   *)
(*     and associative on the reachable states,                            *)
(*   - a rejected append leaves the state unchanged.                       *)
(***************************************************************************)
EXTENDS Accum, IOUtils

EnvInt(name, default) == IF name \in DOMAIN IOEnv THEN atoi(IOEnv[name]) ELSE default
R == 1..EnvInt("ACC_R", 3)
V == (-1)..EnvInt("ACC_V", 2)          \* -1, 0 are non-positive codes (rejected by geo / harm)
K == EnvInt("ACC_K", 4)               \* bound on the size of a register
Fl == IF "ACC_FL" \in DOMAIN IOEnv THEN IOEnv.ACC_FL ELSE "harm"

VARIABLES abs, impl
vars == <<abs, impl>>

Init == /\ abs = [r \in R |-> EmptyReg]
        /\ impl = [r \in R |-> StatZero]

\* the implementation's update rules, transcribed from the code
ImplAppend(s, v) == [n |-> s.n + 1, s1 |-> s.s1 + v, s2 |-> s.s2 + v * v]

DoAppend == \E r \in R, v \in V :
            LET act == [a |-> "append", r |-> r, v |-> v] IN
            /\ abs' = Step(Fl, abs, act)
            /\ impl' = IF Outcome(Fl, abs, act).tag = "ok"
                       THEN [impl EXCEPT ![r] = ImplAppend(@, v)] ELSE impl
New == \E r \in R : /\ abs' = Step(Fl, abs, [a |-> "new", r |-> r])
                    /\ impl' = [impl EXCEPT ![r] = StatZero]
Clone == \E r \in R, q \in R : /\ abs' = Step(Fl, abs, [a |-> "clone", r |-> r, q |-> q])
                               /\ impl' = [impl EXCEPT ![q] = impl[r]]
AddAssign == \E r \in R, q \in R :
               /\ abs' = Step(Fl, abs, [a |-> "add_assign", r |-> r, q |-> q])
               /\ impl' = [impl EXCEPT ![r] = StatAdd(impl[r], impl[q])]
Add == \E r \in R, q \in R, t \in R :
               /\ abs' = Step(Fl, abs, [a |-> "add", r |-> r, q |-> q, t |-> t])
               /\ impl' = [impl EXCEPT ![t] = StatAdd(impl[r], impl[q])]

Next == DoAppend \/ New \/ Clone \/ AddAssign \/ Add
Spec == Init /\ [][Next]_vars

Bounded == \A r \in R : Count(abs[r].a) <= K

\* any history = batch: the statistics kept by the implementation are those of the bag
Refinement == \A r \in R : impl[r] = Stat(abs[r].a)

MergeLaws == \A r \in R, q \in R :
    /\ abs[r].a (+) EmptyBag = abs[r].a
    /\ abs[r].a (+) abs[q].a = abs[q].a (+) abs[r].a
    /\ Stat(abs[r].a (+) abs[q].a) = StatAdd(Stat(abs[r].a), Stat(abs[q].a))
    /\ StatAdd(Stat(abs[r].a), StatZero) = Stat(abs[r].a)

\* a rejected observation never changes a register (action property)
RejectKeeps == [][\A r \in R, v \in V :
                    (~Admissible(Fl, v)) => Step(Fl, abs, [a |-> "append", r |-> r, v |-> v]) = abs]_vars
OnlyAdmissible == \A r \in R : \A v \in DOMAIN abs[r].a : Admissible(Fl, v)
=============================================================================
