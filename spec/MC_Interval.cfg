SPECIFICATION Spec
CONSTANTS
  B <- MC_B
  W <- MC_W
  Scalars <- MC_Scalars
INVARIANTS
  TypeOK
  AllWellFormed
  RefIsDef
  IncludesLaws
  OrderLaws
  ArithLaws
  JudgeAcceptsSpec
CHECK_DEADLOCK FALSE
