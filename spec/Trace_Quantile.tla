---------------------------- MODULE Trace_Quantile ----------------------------
(***************************************************************************)
(* Trace validation of quantile intervals (C03).                           *)
(***************************************************************************)
EXTENDS Quantile, Json, IOUtils, FiniteSets

Rec == ndJsonDeserialize(IOEnv.TRACE)

OneDy == DyOfInt(1)
HalfOrMoreLevel(conf) == DyLe(HalfDy, FDy(conf.level))

\* exact product q * n of the float q actually used
QProd(e) == DyMulInt(FDy(e.qv), e.n)
QInvalid(e) == ~IsFin(e.qv) \/ DySign(FDy(e.qv)) <= 0 \/ DyLe(OneDy, FDy(e.qv))

\* candidate success counts: from the f64 product (the code) and from the exact product (admitted)
Ks(e) == {RoundHalfAway(FDy(e.qn)), RoundHalfAway(QProd(e))}

DomainOf(e, k) ==
    IF e.n < 4 THEN "TooFewSamples"
    ELSE IF k < 2 THEN "TooFewSuccesses"
    ELSE IF e.n - k < 2 THEN "TooFewFailures"
    ELSE "ok"

WilOf(e, k) == LET S == {i \in DOMAIN e.wil : e.wil[i].k = k} IN
               IF S = {} THEN [tag |-> "none"] ELSE e.wil[CHOOSE i \in S : TRUE].out

RanksFit(e, o, k) ==
    LET w == WilOf(e, k) IN
    /\ w.tag = "ok"
    /\ (o.iv.kind # "lower" => o.iv.lo \in AdmRanks(w.iv.lo, e.n))
    /\ (o.iv.kind # "upper" => o.iv.hi \in AdmRanks(w.iv.hi, e.n))

JudgeRanks(e, o) ==
    IF o.tag = "panic" THEN {"C03.no_panic"}
    ELSE IF IsNaN(e.qv) THEN {c \in {"C03.domain"} : o.tag # "err"}
    ELSE IF QInvalid(e)
    THEN {c \in {"C03.domain"} : ~(o.tag = "err" /\ (o.variant = "InvalidQuantile" \/ (e.n < 4 /\ o.variant = "TooFewSamples")))}
    ELSE LET ks == Ks(e)  doms == {DomainOf(e, k) : k \in ks} IN
         IF o.tag = "err" THEN {c \in {"C03.domain"} : o.variant \notin doms}
         ELSE {c \in {"C03.domain"} : "ok" \notin doms}
              \cup {c \in {"C03.kind"} : o.iv.kind # e.confv.kind}
              \cup {c \in {"C03.in_range"} :
                      \/ (o.iv.kind = "two" /\ ~(o.iv.lo <= o.iv.hi /\ o.iv.hi < e.n))
                      \/ (o.iv.kind = "upper" /\ ~(o.iv.lo < e.n))
                      \/ (o.iv.kind = "lower" /\ ~(o.iv.hi < e.n))}
              \cup {c \in {"C03.ranks"} : ~(\E k \in ks : DomainOf(e, k) = "ok" /\ RanksFit(e, o, k))}
              \cup {c \in {"C03.brackets"} :
                      (e.confv.kind = "two" \/ HalfOrMoreLevel(e.confv)) /\
                      ~(\E k \in ks : /\ (o.iv.kind # "lower" => o.iv.lo <= k + 1)
                                      /\ (o.iv.kind # "upper" => o.iv.hi >= k - 1))}

\* ---- populations beyond 2^32: n = a * 2^p, q = j / 32, ranks as limbs --------------------------
BigN(e) == BigShl(BigOfInt(e.nbig.a), e.nbig.p)
BigK(e) == BigShl(BigMulInt(BigOfInt(e.nbig.a), e.qj), e.nbig.p - 5)   \* q * n exactly
BL(x) == BigOfLimbs(1, x)
JudgeBig(e, o) ==
    IF o.tag = "panic" THEN {"C03.no_panic"}
    ELSE IF o.tag = "err" THEN {"C03.domain"}                          \* 2 <= k <= n - 2 by construction
    ELSE {c \in {"C03.kind"} : o.iv.kind # e.confv.kind}
         \cup {c \in {"C03.in_range"} :
                 \/ (o.iv.kind = "two" /\ ~(BigLe(BL(o.iv.lo), BL(o.iv.hi)) /\ BigLt(BL(o.iv.hi), BigN(e))))
                 \/ (o.iv.kind = "upper" /\ ~BigLt(BL(o.iv.lo), BigN(e)))
                 \/ (o.iv.kind = "lower" /\ ~BigLt(BL(o.iv.hi), BigN(e)))}
         \cup {c \in {"C03.brackets"} :
                 (e.confv.kind = "two" \/ HalfOrMoreLevel(e.confv)) /\
                 ~(/\ (o.iv.kind # "lower" => BigLe(BL(o.iv.lo), BigAdd(BigK(e), BigOfInt(1))))
                   /\ (o.iv.kind # "upper" => BigLe(BigSub(BigK(e), BigOfInt(1)), BL(o.iv.hi))))}
         \* the interval is narrow: |rank - k| <= 4 sqrt(n)  (z <= 3.9, sqrt(q(1-q)) <= 1/2, Wilson shift O(1))
         \cup {c \in {"C03.ranks"} :
                 LET far(x) == LET dd == BigSub(BL(x), BigK(e)) IN BigLt(BigMulInt(BigN(e), 16), BigMul(dd, dd)) IN
                 (o.iv.kind # "lower" /\ far(o.iv.lo)) \/ (o.iv.kind # "upper" /\ far(o.iv.hi))}

Failed(e) ==
  CASE e.op = "quant.big" ->
         JudgeBig(e, e.out)
         \cup {c \in {"C03.entry_points_agree"} : e.out # e.out_stats \/ e.out # e.out_merged}
         \cup {c \in {"C03.population_beyond_32_bits"} : BL(e.nlimbs) # BigN(e)}
    [] e.op = "quant.ranks" ->
         JudgeRanks(e, e.out)
         \cup {c \in {"C03.entry_points_agree"} : e.out # e.out_stats}
         \cup {c \in {"C03.history_independent"} : "out_fresh" \in DOMAIN e /\ e.out # e.out_fresh}
         \cup {c \in {"C03.product_observed"} : IsFin(e.qv) /\ DySign(FDy(e.qv)) >= 0 /\ ~CorrectlyRounded(e.qn, QProd(e))}
    [] e.op = "quant.index" ->
         IF e.out.tag = "panic" THEN {"C03.no_panic"}
         ELSE IF e.n = 0 THEN {c \in {"C03.index"} : ~(e.out.tag = "err" /\ e.out.variant = "TooFewSamples")}
         ELSE IF IsNaN(e.qv) THEN {}        \* unspecified
         ELSE IF DySign(FDy(e.qv)) < 0 \/ DyLt(OneDy, FDy(e.qv))
         THEN {c \in {"C03.index"} : ~(e.out.tag = "err" /\ e.out.variant = "InvalidQuantile")}
         ELSE {c \in {"C03.index"} : ~(e.out.tag = "ok" /\ e.out.res \in IndexRef(e.qv, e.n))}
    [] e.op = "quant.data" ->
         LET sorted == IF e.dfmt = "iota" THEN [i \in 1..e.data.iota |-> i - 1]
                       ELSE IF e.dfmt = "rle" THEN ExpandRle(e.data.rle)
                       ELSE SortSeq(e.data, LAMBDA a, b : a < b)
             o == e.out  r == e.ranks IN
         IF o.tag = "panic" THEN {"C03.no_panic"}
         ELSE {c \in {"C03.data_outcome"} : o.tag # r.tag \/ (o.tag = "err" /\ o.variant # r.variant)}
              \cup {c \in {"C03.data_elements"} : o.tag = "ok" /\ r.tag = "ok" /\
                      ~(/\ o.iv.kind = r.iv.kind
                        /\ (o.iv.kind # "lower" => o.iv.lo = sorted[r.iv.lo + 1])
                        /\ (o.iv.kind # "upper" => o.iv.hi = sorted[r.iv.hi + 1]))}

Clauses(e) ==
  CASE e.op = "quant.big" -> {"C03.no_panic", "C03.entry_points_agree", "C03.population_beyond_32_bits"}
                             \cup (IF e.out.tag = "ok" THEN {"C03.kind", "C03.in_range", "C03.ranks"} ELSE {})
    [] e.op = "quant.ranks" ->
         {"C03.no_panic", "C03.domain", "C03.entry_points_agree"} \cup (IF "out_fresh" \in DOMAIN e THEN {"C03.history_independent"} ELSE {})
         \cup (IF e.out.tag = "ok" THEN {"C03.kind", "C03.in_range", "C03.ranks", "C03.kind." \o e.confv.kind}
                                         \cup (IF e.confv.kind = "two" \/ HalfOrMoreLevel(e.confv) THEN {"C03.brackets"} ELSE {})
               ELSE IF e.out.tag = "err" THEN {"C03.rejects." \o e.out.variant} ELSE {})
         \cup (IF IsFin(e.qv) /\ DySign(FDy(e.qv)) >= 0 THEN {"C03.product_observed"} ELSE {})
         \cup (IF IsFin(e.qv) /\ DySign(FDy(e.qv)) >= 0 /\ Cardinality(Ks(e)) = 2 THEN {"C03.rounding_boundary"} ELSE {})
    [] e.op = "quant.index" -> {"C03.index"}
    [] e.op = "quant.data" -> {"C03.no_panic", "C03.data_outcome", "C03.entry." \o e.entry, "C03.type." \o e.ty}
                              \cup (IF e.dfmt = "iota" THEN {"C03.distinct_values_shuffled"} ELSE {})
                              \cup (IF e.entry = "max_n" /\ e.n > 1024 THEN {"C03.capacity_above_default"} ELSE {})
                              \cup (IF e.out.tag = "ok" THEN {"C03.data_elements"} ELSE {})

VARIABLES l, cov, nbad
vars == <<l, cov, nbad>>
Init == l = 1 /\ cov = <<>> /\ nbad = 0
Bump(c, cs) == [x \in DOMAIN c \cup cs |->
                   (IF x \in DOMAIN c THEN c[x] ELSE 0) + (IF x \in cs THEN 1 ELSE 0)]
Next == /\ l <= Len(Rec)
        /\ LET e == Rec[l]  f == Failed(e)  cs == Clauses(e) IN
             /\ (f # {}) => PrintT("BAD " \o ToJson([id |-> e.id, failed |-> f]))
             /\ nbad' = nbad + (IF f = {} THEN 0 ELSE 1)
             /\ cov' = Bump(cov, cs)
        /\ l' = l + 1
Spec == Init /\ [][Next]_vars
Flush == (l = Len(Rec) + 1) =>
            PrintT("COV " \o ToJson([events |-> Len(Rec), bad |-> nbad, cov |-> cov]))
=============================================================================
