SPECIFICATION Spec
INVARIANT Flush
CHECK_DEADLOCK FALSE
