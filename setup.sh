#!/bin/sh
# Build the verification framework from files on disk only (offline).
set -e
cd "$(dirname "$0")"
export CARGO_NET_OFFLINE=true
mkdir -p work evidence java/classes
if ls java/verif/*.java >/dev/null 2>&1; then
  javac -nowarn -cp /opt/veriftools/tla/tla2tools.jar:/opt/veriftools/tla/CommunityModules-deps.jar -d java/classes java/verif/*.java
  touch java/classes/.stamp
fi
[ -f harness/Cargo.lock ] || cp /repo/Cargo.lock harness/Cargo.lock
(cd harness && cargo build --release --offline)
echo "setup ok"
