use stats_ci::utils::KahanSum;
fn main() {
    // right fold: the accumulated (large) register is always the right-hand operand
    for &m in &[10usize, 100, 1000, 10000, 100000, 1000000] {
        let chunk = [0.1f32, 0.1, 0.1];
        let mut acc = KahanSum::<f32>::default();
        let mut exact = 0.0f64; let mut abs = 0.0f64;
        for _ in 0..m {
            let mut t = KahanSum::<f32>::default();
            for x in chunk { t += x; exact += x as f64; abs += (x as f64).abs(); }
            t += acc;
            acc = t;
        }
        let err = (acc.value() as f64 - exact).abs();
        let u = (2f64).powi(-24);
        println!("f32 rfold m={} value={} exact={} err/(u*abs)={:.2}", m, acc.value(), exact, err / (u * abs));
        // left fold for comparison
        let mut acc = KahanSum::<f32>::default();
        for _ in 0..m { let mut t = KahanSum::<f32>::default(); for x in chunk { t += x; } acc += t; }
        let err = (acc.value() as f64 - exact).abs();
        println!("f32 lfold m={} err/(u*abs)={:.2}", m, err / (u * abs));
    }
}
