//! Conformance harness: executes cases emitted by TLC on the real `stats-ci`
//! crate and records every outcome as one ndjson trace line.  It contains no
//! expected values and no tolerances: verdicts are TLC's.
//!
//! usage: verif-harness replay <cases.ndjson> <trace.ndjson>

mod enc;
mod iv;
mod conf;
mod accum;
mod prod;
mod kahan;
#[cfg(feature = "serde")]
mod serde_ops;
#[cfg(feature = "serde")]
mod poswire;

use serde_json::{json, Value};
use std::io::{BufRead, BufWriter, Write};

pub fn silent_panics() {
    std::panic::set_hook(Box::new(|_| {}));
}

/// Run `f`, turning a panic into data.
pub fn guarded<F: FnOnce() -> Value + std::panic::UnwindSafe>(f: F) -> Value {
    match std::panic::catch_unwind(f) {
        Ok(v) => v,
        Err(e) => {
            let msg = if let Some(s) = e.downcast_ref::<&str>() {
                s.to_string()
            } else if let Some(s) = e.downcast_ref::<String>() {
                s.clone()
            } else {
                "?".to_string()
            };
            json!({"tag": "panic", "msg": msg})
        }
    }
}

fn dispatch(case: &Value) -> Vec<Value> {
    let op = case["op"].as_str().unwrap_or("");
    if op.starts_with("iv.") {
        iv::run(case)
    } else if op.starts_with("conf.") {
        conf::run(case)
    } else if op.starts_with("accum.") {
        accum::run(case)
    } else if op.starts_with("mean.") || op.starts_with("prop.") || op.starts_with("quant.") {
        prod::run(case)
    } else if op.starts_with("kahan.") {
        kahan::run(case)
    } else if op.starts_with("serde.") {
        #[cfg(feature = "serde")]
        { serde_ops::run(case) }
        #[cfg(not(feature = "serde"))]
        { vec![json!({"op": "harness.unknown", "case": case})] }
    } else {
        vec![json!({"op": "harness.unknown", "case": case})]
    }
}

fn main() {
    let args: Vec<String> = std::env::args().collect();
    if args.len() < 4 || args[1] != "replay" {
        eprintln!("usage: verif-harness replay <cases.ndjson> <trace.ndjson>");
        std::process::exit(2);
    }
    if std::env::var("HARNESS_VERBOSE").is_err() {
        silent_panics();
    }
    let input = std::fs::File::open(&args[2]).expect("open cases");
    let out = std::fs::File::create(&args[3]).expect("create trace");
    let mut w = BufWriter::new(out);
    let lines: Vec<String> = std::io::BufReader::new(input)
        .lines()
        .map(|l| l.expect("read"))
        .filter(|l| !l.trim().is_empty())
        .collect();
    // cases are independent: execute in parallel, write in case order
    use rayon::prelude::*;
    let threads = std::env::var("HARNESS_THREADS").ok().and_then(|s| s.parse().ok()).unwrap_or(8usize);
    let pool = rayon::ThreadPoolBuilder::new().num_threads(threads).build().unwrap();
    let results: Vec<(Option<Value>, Vec<Value>)> = pool.install(|| {
        lines
            .par_iter()
            .map(|line| {
                let case: Value = serde_json::from_str(line).expect("case json");
                let evs = dispatch(&case);
                (case.get("cid").cloned(), evs)
            })
            .collect()
    });
    let mut id: i64 = 0;
    for (cid, evs) in results {
        for mut ev in evs {
            id += 1;
            ev["id"] = json!(id);
            if let Some(c) = &cid {
                ev["cid"] = c.clone();
            }
            writeln!(w, "{}", ev).unwrap();
        }
    }
    w.flush().unwrap();
}
