//! Conformance harness: executes cases emitted by TLC on the real `stats-ci`
//! crate and records every outcome as one ndjson trace line.  It contains no
//! expected values and no tolerances: verdicts are TLC's.
//!
//! usage: verif-harness replay <cases.ndjson> <trace.ndjson>

mod enc;
mod iv;
mod conf;

use serde_json::{json, Value};
use std::io::{BufRead, BufWriter, Write};

pub fn silent_panics() {
    std::panic::set_hook(Box::new(|_| {}));
}

/// Run `f`, turning a panic into data.
pub fn guarded<F: FnOnce() -> Value + std::panic::UnwindSafe>(f: F) -> Value {
    match std::panic::catch_unwind(f) {
        Ok(v) => v,
        Err(e) => {
            let msg = if let Some(s) = e.downcast_ref::<&str>() {
                s.to_string()
            } else if let Some(s) = e.downcast_ref::<String>() {
                s.clone()
            } else {
                "?".to_string()
            };
            json!({"tag": "panic", "msg": msg})
        }
    }
}

fn dispatch(case: &Value) -> Vec<Value> {
    let op = case["op"].as_str().unwrap_or("");
    if op.starts_with("iv.") {
        iv::run(case)
    } else if op.starts_with("conf.") {
        conf::run(case)
    } else {
        vec![json!({"op": "harness.unknown", "case": case})]
    }
}

fn main() {
    let args: Vec<String> = std::env::args().collect();
    if args.len() < 4 || args[1] != "replay" {
        eprintln!("usage: verif-harness replay <cases.ndjson> <trace.ndjson>");
        std::process::exit(2);
    }
    silent_panics();
    let input = std::fs::File::open(&args[2]).expect("open cases");
    let out = std::fs::File::create(&args[3]).expect("create trace");
    let mut w = BufWriter::new(out);
    let mut id: i64 = 0;
    for line in std::io::BufReader::new(input).lines() {
        let line = line.expect("read");
        if line.trim().is_empty() {
            continue;
        }
        let case: Value = serde_json::from_str(&line).expect("case json");
        for mut ev in dispatch(&case) {
            id += 1;
            ev["id"] = json!(id);
            if let Some(c) = case.get("cid") {
                ev["cid"] = c.clone();
            }
            writeln!(w, "{}", ev).unwrap();
        }
    }
    w.flush().unwrap();
}
