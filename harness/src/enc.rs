//! Exact encoding of floats for TLC (whose JSON reader truncates non-integers
//! and wraps integers beyond 32 bits): sign, exponent of the least significant
//! bit and the odd mantissa as little-endian limbs base 2^15.
use serde_json::{json, Value};

pub const LIMB_BITS: u32 = 15;

pub fn limbs_u128(mut m: u128) -> Vec<u64> {
    let mut v = Vec::new();
    while m > 0 {
        v.push((m & ((1u128 << LIMB_BITS) - 1)) as u64);
        m >>= LIMB_BITS;
    }
    v
}

/// value = (-1)^s * m * 2^e, m odd (or zero, then e = 0)
pub fn enc_f64(x: f64) -> Value {
    enc_float(x, "f64", format!("{:016x}", x.to_bits()))
}

pub fn enc_f32(x: f32) -> Value {
    enc_float(x as f64, "f32", format!("{:08x}", x.to_bits()))
}

fn enc_float(x: f64, t: &str, bits: String) -> Value {
    if x.is_nan() {
        return json!({"t": t, "tag": "nan", "b": bits});
    }
    if x.is_infinite() {
        return json!({"t": t, "tag": if x > 0. { "inf" } else { "-inf" }, "b": bits});
    }
    let b = x.to_bits();
    let s = (b >> 63) as u64;
    let exp = ((b >> 52) & 0x7ff) as i64;
    let frac = b & ((1u64 << 52) - 1);
    let (mut m, mut e) = if exp == 0 { (frac, -1074i64) } else { (frac | (1u64 << 52), exp - 1075) };
    if m == 0 {
        e = 0;
    } else {
        let tz = m.trailing_zeros();
        m >>= tz;
        e += tz as i64;
    }
    json!({"t": t, "tag": "fin", "s": s, "e": e, "m": limbs_u128(m as u128), "b": bits})
}

pub trait FloatEnc: Copy {
    fn enc(self) -> Value;
    fn from_f64_lossy(x: f64) -> Self;
    fn tyname() -> &'static str;
}
impl FloatEnc for f64 {
    fn enc(self) -> Value { enc_f64(self) }
    fn from_f64_lossy(x: f64) -> Self { x }
    fn tyname() -> &'static str { "f64" }
}
impl FloatEnc for f32 {
    fn enc(self) -> Value { enc_f32(self) }
    fn from_f64_lossy(x: f64) -> Self { x as f32 }
    fn tyname() -> &'static str { "f32" }
}

/// Decode a number given by a case.  Accepted forms:
///   7                                   integer
///   {"n": 5, "p": -2}                   n * 2^p   (dyadic)
///   {"s":0,"e":-3,"m":[..]}             full encoding
///   {"tag":"nan"|"inf"|"-inf"|"-0"}     specials
///   {"dec":"0.95"}                      decimal string (correctly rounded parse)
///   {"bits":"3ff0000000000000"}         raw f64 bits
/// x * 2^p without intermediate overflow / underflow (exact whenever the result is representable)
pub fn ldexp(mut x: f64, mut p: i64) -> f64 {
    while p > 500 { x *= (2f64).powi(500); p -= 500; }
    while p < -500 { x *= (2f64).powi(-500); p += 500; }
    x * (2f64).powi(p as i32)
}

pub fn dec_f64(v: &Value) -> f64 {
    if let Some(i) = v.as_i64() {
        return i as f64;
    }
    if let Some(c) = v.get("c").and_then(|t| t.as_str()) {
        // value classes of the totality table (spec/Totality.tla)
        let k = v.get("v").and_then(|x| x.as_i64()).unwrap_or(1) as f64;
        return match c {
            "num" => k,
            "tenth" => k * 0.1,
            "huge" => k * 1e200,
            "tiny" => k * 1e-200,
            "nan" => f64::NAN,
            "inf" => f64::INFINITY,
            "ninf" => f64::NEG_INFINITY,
            "negzero" => -0.0,
            c => panic!("class {}", c),
        };
    }
    if let Some(t) = v.get("tag").and_then(|t| t.as_str()) {
        match t {
            "nan" => return f64::NAN,
            "inf" => return f64::INFINITY,
            "-inf" => return f64::NEG_INFINITY,
            "-0" => return -0.0,
            _ => {}
        }
    }
    if let (Some(a), Some(b)) = (v.get("num").and_then(|x| x.as_i64()), v.get("den").and_then(|x| x.as_i64())) {
        // correctly rounded quotient of two integers, optionally stepped by `ulp` units in the last place
        let mut x = a as f64 / b as f64;
        let steps = v.get("ulp").and_then(|x| x.as_i64()).unwrap_or(0);
        for _ in 0..steps.abs() {
            let bits = x.to_bits();
            x = if (steps > 0) == (x > 0.0) { f64::from_bits(bits + 1) } else { f64::from_bits(bits - 1) };
        }
        return x;
    }
    if let Some(d) = v.get("dec").and_then(|t| t.as_str()) {
        return d.parse::<f64>().expect("dec");
    }
    if let Some(b) = v.get("bits").and_then(|t| t.as_str()) {
        return f64::from_bits(u64::from_str_radix(b, 16).expect("bits"));
    }
    if let (Some(n), Some(p)) = (v.get("n").and_then(|x| x.as_i64()), v.get("p").and_then(|x| x.as_i64())) {
        return ldexp(n as f64, p);
    }
    if let Some(m) = v.get("m").and_then(|x| x.as_array()) {
        let mut acc: u128 = 0;
        for (i, l) in m.iter().enumerate() {
            acc |= (l.as_u64().unwrap() as u128) << (LIMB_BITS * i as u32);
        }
        let e = v["e"].as_i64().unwrap();
        let s = v["s"].as_i64().unwrap_or(0);
        // exact when acc < 2^53 and the exponent is in range (the generator guarantees it)
        let x = ldexp(acc as f64, e);
        return if s == 1 { -x } else { x };
    }
    panic!("dec_f64: cannot decode {}", v);
}
