//! Interval operations (properties C07, C13, C14, C15, C19).
//!
//! Chain positions of the model are mapped to concrete elements by fixed strictly
//! monotone embeddings; results are mapped back to positions.  No expectations here.
use crate::{enc, guarded};
use serde_json::{json, Value};
use stats_ci::Interval;
use std::collections::hash_map::DefaultHasher;
use std::hash::{Hash, Hasher};
use std::ops::{Bound, RangeBounds};

/// A chain embedding: position p in -1..=n  <->  element.
pub trait Elem: PartialOrd + Clone + std::fmt::Debug + std::fmt::Display {
    /// `role` is "bound" or "probe" (lets float types use -0.0 on one side and +0.0 on the other)
    fn from_pos(p: i64, n: i64, ty: &str, role: &str) -> Self;
    fn to_pos(&self, n: i64, ty: &str) -> Value;
}

impl Elem for i32 {
    fn from_pos(p: i64, _n: i64, _ty: &str, _r: &str) -> Self { (10 * p) as i32 }
    fn to_pos(&self, _n: i64, _ty: &str) -> Value {
        if *self == i32::MIN { json!({"tag": "min"}) } else if *self == i32::MAX { json!({"tag": "max"}) }
        else if self % 10 == 0 { json!({"tag": "val", "v": self / 10}) } else { json!({"tag": "off", "raw": self}) }
    }
}
impl Elem for i8 {
    // the outer witnesses are the extreme values of the type
    fn from_pos(p: i64, n: i64, _ty: &str, _r: &str) -> Self {
        if p < 0 { i8::MIN } else if p >= n { i8::MAX } else { (10 * p) as i8 }
    }
    fn to_pos(&self, _n: i64, _ty: &str) -> Value {
        if *self == i8::MIN { json!({"tag": "min"}) } else if *self == i8::MAX { json!({"tag": "max"}) }
        else if self % 10 == 0 { json!({"tag": "val", "v": self / 10}) } else { json!({"tag": "off", "raw": self}) }
    }
}
impl Elem for u8 {
    fn from_pos(p: i64, _n: i64, _ty: &str, _r: &str) -> Self { (10 * (p + 1) + 5) as u8 }
    fn to_pos(&self, _n: i64, _ty: &str) -> Value {
        if *self == u8::MIN { json!({"tag": "min"}) } else if *self == u8::MAX { json!({"tag": "max"}) }
        else if self % 10 == 5 { json!({"tag": "val", "v": (*self as i64 - 5) / 10 - 1}) } else { json!({"tag": "off", "raw": self}) }
    }
}
impl Elem for f64 {
    // position 2 is zero: "f64" uses +0.0 everywhere, "f64nz" uses -0.0 for bounds and +0.0 for
    // probes, "f64pz" the converse; "f64inf" maps the outer witnesses to -inf / +inf.
    fn from_pos(p: i64, n: i64, ty: &str, role: &str) -> Self {
        if ty == "f64ext" {
            // magnitudes whose `{}` rendering is very long (no exponent notation in Display for floats)
            const EXT: [f64; 10] = [f64::MIN, -1.2345678901234567e300, -1.2345678901234567e-13, f64::MIN_POSITIVE,
                                    1.0000000000000002e-13, 12345.678, 1.2345678901234567e31, 9.87654321e200, 1.7e308, f64::MAX];
            return EXT[((p + 1).max(0) as usize).min(9)];
        }
        if p == 99 { return f64::NAN; }                      // the NaN probe
        if ty == "f64xb" && p <= 0 { return f64::NEG_INFINITY; }          // infinities as explicit BOUNDS
        if ty == "f64xb" && p >= n - 1 { return f64::INFINITY; }
        if ty == "f64inf" && p < 0 { return f64::NEG_INFINITY; }
        if ty == "f64inf" && p >= n { return f64::INFINITY; }
        let x = (p - 2) as f64 * 0.25;
        if p == 2 {
            let neg = (ty == "f64nz" && role == "bound") || (ty == "f64pz" && role == "probe");
            if neg { -0.0 } else { 0.0 }
        } else { x }
    }
    fn to_pos(&self, _n: i64, _ty: &str) -> Value {
        if *self == f64::NEG_INFINITY { json!({"tag": "min"}) } else if *self == f64::INFINITY { json!({"tag": "max"}) }
        else if (self * 4.0).fract() == 0.0 { json!({"tag": "val", "v": (self * 4.0) as i64 + 2}) } else { json!({"tag": "off"}) }
    }
}
impl Elem for char {
    fn from_pos(p: i64, _n: i64, _ty: &str, _r: &str) -> Self { (b'b' as i64 + p) as u8 as char }
    fn to_pos(&self, _n: i64, _ty: &str) -> Value { json!({"tag": "val", "v": *self as i64 - b'b' as i64}) }
}
impl Elem for String {
    fn from_pos(p: i64, _n: i64, ty: &str, _r: &str) -> Self {
        if ty == "Stringlong" { format!("{}{:03}", "a-long-element-".repeat(8), p + 1) } else { format!("s{}", p + 1) }
    }
    fn to_pos(&self, _n: i64, _ty: &str) -> Value { json!({"tag": "val", "v": self[1..].parse::<i64>().unwrap() - 1}) }
}

pub fn mk<T: Elem>(a: &Value, n: i64, ty: &str) -> Interval<T> {
    // built from the public enum variants: no validation, the model decides what is well-formed
    match a["k"].as_str().unwrap() {
        "two" => Interval::TwoSided(
            T::from_pos(a["lo"].as_i64().unwrap(), n, ty, "bound"),
            T::from_pos(a["hi"].as_i64().unwrap(), n, ty, "bound"),
        ),
        "up" => Interval::UpperOneSided(T::from_pos(a["lo"].as_i64().unwrap(), n, ty, "bound")),
        "low" => Interval::LowerOneSided(T::from_pos(a["hi"].as_i64().unwrap(), n, ty, "bound")),
        k => panic!("kind {}", k),
    }
}

fn posv<T: Elem>(x: &T, n: i64, ty: &str) -> Value {
    let v = x.to_pos(n, ty);
    if v["tag"] == "val" { v["v"].clone() } else { json!(-999) }
}

fn unmk<T: Elem>(iv: &Interval<T>, n: i64, ty: &str) -> Value {
    match iv {
        Interval::TwoSided(a, b) => json!({"k": "two", "lo": posv(a, n, ty), "hi": posv(b, n, ty)}),
        Interval::UpperOneSided(a) => json!({"k": "up", "lo": posv(a, n, ty)}),
        Interval::LowerOneSided(b) => json!({"k": "low", "hi": posv(b, n, ty)}),
    }
}

fn opt<T: Elem>(o: Option<&T>, n: i64, ty: &str) -> Value {
    match o {
        Some(x) => json!({"some": true, "v": posv(x, n, ty)}),
        None => json!({"some": false}),
    }
}

fn bound<T: Elem>(b: Bound<&T>, n: i64, ty: &str) -> Value {
    match b {
        Bound::Included(x) => json!({"b": "included", "v": posv(x, n, ty)}),
        Bound::Excluded(x) => json!({"b": "excluded", "v": posv(x, n, ty)}),
        Bound::Unbounded => json!({"b": "unbounded"}),
    }
}

fn hash_of<T: Hash>(x: &T) -> u64 {
    let mut h = DefaultHasher::new();
    x.hash(&mut h);
    h.finish()
}

/// operations available for every element type.  Instantiated per CONCRETE element type (not through a
/// generic parameter): method-call syntax on a concrete `Interval<f64>` is what a user writes, and an inherent
/// method added for one element type takes precedence there over the trait method generic code would reach.
macro_rules! generic_for {
    ($fname:ident, $T:ty) => {
        fn $fname(case: &Value, ty: &str) -> Option<Value> {
            #[allow(dead_code)] type T = $T;
    let op = case["op"].as_str().unwrap();
    let n = case["n"].as_i64().unwrap_or(5);
    let mut ev = case.clone();
    match op {
        "iv.contains" => {
            let a: Interval<T> = mk(&case["a"], n, ty);
            let x = T::from_pos(case["x"].as_i64().unwrap(), n, ty, "probe");
            ev["res"] = json!(a.contains(&x));
        }
        "iv.range_contains" => {
            let a: Interval<T> = mk(&case["a"], n, ty);
            let x = T::from_pos(case["x"].as_i64().unwrap(), n, ty, "probe");
            ev["res"] = json!(RangeBounds::contains(&a, &x));
            ev["sb"] = bound(a.start_bound(), n, ty);
            ev["eb"] = bound(a.end_bound(), n, ty);
        }
        "iv.intersects" | "iv.includes" | "iv.is_included_in" => {
            let a: Interval<T> = mk(&case["a"], n, ty);
            let b: Interval<T> = mk(&case["b"], n, ty);
            ev["res"] = json!(match op {
                "iv.intersects" => a.intersects(&b),
                "iv.includes" => a.includes(&b),
                _ => a.is_included_in(&b),
            });
        }
        "iv.cmp" => {
            let a: Interval<T> = mk(&case["a"], n, ty);
            let b: Interval<T> = mk(&case["b"], n, ty);
            let c = match a.partial_cmp(&b) {
                Some(std::cmp::Ordering::Less) => "lt",
                Some(std::cmp::Ordering::Greater) => "gt",
                Some(std::cmp::Ordering::Equal) => "eq",
                None => "none",
            };
            ev["res"] = json!({"cmp": c, "lt": a < b, "le": a <= b, "gt": a > b, "ge": a >= b, "eq": a == b, "ne": a != b});
        }
        "iv.make" => {
            let path = case["path"].as_str().unwrap();
            let lo = || T::from_pos(case["lo"].as_i64().unwrap(), n, ty, "bound");
            let hi = || T::from_pos(case["hi"].as_i64().unwrap(), n, ty, "bound");
            let haslo = case["haslo"].as_bool().unwrap();
            let hashi = case["hashi"].as_bool().unwrap();
            let res: Result<Interval<T>, stats_ci::error::IntervalError> = match path {
                "new" => Interval::new(lo(), hi()),
                "new_upper" => Ok(Interval::new_upper(lo())),
                "new_lower" => Ok(Interval::new_lower(hi())),
                "tuple" => Interval::try_from((lo(), hi())),
                "optpair" => Interval::try_from((
                    if haslo { Some(lo()) } else { None },
                    if hashi { Some(hi()) } else { None },
                )),
                "range_incl" => Interval::try_from(lo()..=hi()),
                "range_from" => Ok(Interval::from(lo()..)),
                "range_to_incl" => Ok(Interval::from(..=hi())),
                p => panic!("path {}", p),
            };
            ev["out"] = match res {
                Ok(iv) => json!({"tag": "ok", "iv": unmk(&iv, n, ty)}),
                Err(stats_ci::error::IntervalError::InvalidBounds) => json!({"tag": "err", "variant": "InvalidBounds"}),
                Err(stats_ci::error::IntervalError::EmptyInterval) => json!({"tag": "err", "variant": "EmptyInterval"}),
            };
        }
        "iv.display" => {
            let a: Interval<T> = mk(&case["a"], n, ty);
            // a Display implementation that fails makes `format!` panic: that is data (rendered as a marker)
            ev["res"] = match std::panic::catch_unwind(std::panic::AssertUnwindSafe(|| format!("{}", a))) {
                Ok(s) => json!(s),
                Err(_) => json!("<Display panicked>"),
            };
            ev["lo_s"] = json!(a.left().map(|x| format!("{}", x)).unwrap_or_default());
            ev["hi_s"] = json!(a.right().map(|x| format!("{}", x)).unwrap_or_default());
        }
        _ => return None,
    }
    Some(ev)
        }
    };
}
generic_for!(generic_i32, i32);
generic_for!(generic_i8, i8);
generic_for!(generic_u8, u8);
generic_for!(generic_f64, f64);
generic_for!(generic_char, char);
generic_for!(generic_string, String);

/// the part of `iv.observe` every type supports
fn observe_common<T: Elem>(a: &Interval<T>, n: i64, ty: &str) -> Value {
    let pair: (Option<T>, Option<T>) = a.clone().into();
    let back: Result<Interval<T>, _> = Interval::try_from(pair.clone());
    json!({
        "is_two_sided": a.is_two_sided(), "is_one_sided": a.is_one_sided(),
        "is_upper": a.is_upper(), "is_lower": a.is_lower(), "is_degenerate": a.is_degenerate(),
        "low": opt(a.low().as_ref(), n, ty), "high": opt(a.high().as_ref(), n, ty),
        "left": opt(a.left(), n, ty), "right": opt(a.right(), n, ty),
        "low_ref": opt(a.low_as_ref(), n, ty), "high_ref": opt(a.high_as_ref(), n, ty),
        "opt_lo": opt(pair.0.as_ref(), n, ty), "opt_hi": opt(pair.1.as_ref(), n, ty),
        "roundtrip_eq": matches!(back, Ok(ref b) if b == a),
        "clone_eq": a.clone() == *a,
        "as_ref_eq": AsRef::<Interval<T>>::as_ref(a) == a,
        "has_proj": false, "has_width_fn": false,
    })
}

macro_rules! observe_num {
    ($t:ty, $lowf:ident, $highf:ident, $step:expr) => {
        |case: &Value, ty: &str| -> Value {
            let n = case["n"].as_i64().unwrap_or(5);
            let a: Interval<$t> = mk(&case["a"], n, ty);
            let mut r = observe_common(&a, n, ty);
            r["has_proj"] = json!(true);
            r["proj_lo"] = a.$lowf().to_pos(n, ty);
            r["proj_hi"] = a.$highf().to_pos(n, ty);
            let t: ($t, $t) = a.clone().into();
            r["tuple_lo"] = t.0.to_pos(n, ty);
            r["tuple_hi"] = t.1.to_pos(n, ty);
            // the pair must carry the very same values as the accessors (sign of zero included: compared through Debug)
            r["tuple_repr_eq"] = json!(format!("{:?}", t.0) == format!("{:?}", a.$lowf()) && format!("{:?}", t.1) == format!("{:?}", a.$highf()));
            r["has_width_fn"] = json!(true);
            r["width"] = match a.width() {
                Some(w) => json!({"some": true, "v": (w as f64 / ($step as f64)) as i64}),
                None => json!({"some": false}),
            };
            r
        }
    };
}

fn observe(case: &Value, ty: &str) -> Value {
    let n = case["n"].as_i64().unwrap_or(5);
    match ty {
        "i32" => (observe_num!(i32, low_i, high_i, 10))(case, ty),
        "i8" => (observe_num!(i8, low_i, high_i, 10))(case, ty),
        "u8" => (observe_num!(u8, low_u, high_u, 10))(case, ty),
        "f64" | "f64nz" | "f64pz" | "f64inf" => (observe_num!(f64, low_f, high_f, 0.25))(case, ty),
        "char" => { let a: Interval<char> = mk(&case["a"], n, ty); observe_common(&a, n, ty) }
        "String" => { let a: Interval<String> = mk(&case["a"], n, ty); observe_common(&a, n, ty) }
        t => panic!("type {}", t),
    }
}

fn eqhash(case: &Value, ty: &str) -> Value {
    let n = case["n"].as_i64().unwrap_or(5);
    macro_rules! hashed {
        ($t:ty) => {{
            let a: Interval<$t> = mk(&case["a"], n, ty);
            let b: Interval<$t> = mk(&case["b"], n, ty);
            // copies made INTO an existing value (Clone::clone_from, what Vec / Option use when re-filling)
            let mut c = a.clone();
            c.clone_from(&b);
            let mut d = b.clone();
            d.clone_from(&a);
            let cf = c == b && d == a && format!("{:?}", c) == format!("{:?}", b) && format!("{:?}", d) == format!("{:?}", a)
                && hash_of(&c) == hash_of(&b) && hash_of(&d) == hash_of(&a);
            json!({"eq": a == b, "ne": a != b, "has_hash": true, "hash_eq": hash_of(&a) == hash_of(&b), "clone_from_ok": cf,
                   "ha": format!("{:016x}", hash_of(&a)), "hb": format!("{:016x}", hash_of(&b))})
        }};
    }
    match ty {
        "i32" => hashed!(i32),
        "i8" => hashed!(i8),
        "u8" => hashed!(u8),
        "char" => hashed!(char),
        "String" => hashed!(String),
        _ => {
            let a: Interval<f64> = mk(&case["a"], n, ty);
            let b: Interval<f64> = mk(&case["b"], n, ty);
            let mut c = a.clone();
            c.clone_from(&b);
            let mut d = b.clone();
            d.clone_from(&a);
            let cf = c == b && d == a && format!("{:?}", c) == format!("{:?}", b) && format!("{:?}", d) == format!("{:?}", a);
            json!({"eq": a == b, "ne": a != b, "has_hash": false, "clone_from_ok": cf})
        }
    }
}

// ---------------------------------------------------------------------------------------
// arithmetic (C13): bounds are actual numbers

fn mk_num<T: Copy + PartialOrd>(a: &Value, f: &dyn Fn(i64) -> T) -> Interval<T> {
    match a["k"].as_str().unwrap() {
        "two" => Interval::TwoSided(f(a["lo"].as_i64().unwrap()), f(a["hi"].as_i64().unwrap())),
        "up" => Interval::UpperOneSided(f(a["lo"].as_i64().unwrap())),
        "low" => Interval::LowerOneSided(f(a["hi"].as_i64().unwrap())),
        k => panic!("kind {}", k),
    }
}

fn unmk_num<T: Copy + PartialOrd>(iv: &Interval<T>, g: &dyn Fn(T) -> Option<i64>) -> Value {
    let gv = |x: T| -> Option<Value> { g(x).map(|v| json!(v)) };
    let r = match iv {
        Interval::TwoSided(a, b) => gv(*a).zip(gv(*b)).map(|(a, b)| json!({"k": "two", "lo": a, "hi": b})),
        Interval::UpperOneSided(a) => gv(*a).map(|a| json!({"k": "up", "lo": a})),
        Interval::LowerOneSided(b) => gv(*b).map(|b| json!({"k": "low", "hi": b})),
    };
    match r {
        Some(iv) => json!({"tag": "ok", "iv": iv}),
        None => json!({"tag": "inexact"}),
    }
}

fn arith(case: &Value, ty: &str) -> Value {
    let op = case["op"].as_str().unwrap();
    let mut ev = case.clone();
    let c = case.clone();
    let ty = ty.to_string();
    ev["out"] = guarded(move || {
        match (op_kind(&c), ty.as_str()) {
            ("scalar", "i32") => {
                let a: Interval<i32> = mk_num(&c["a"], &|v| v as i32);
                let k = c["k"].as_i64().unwrap() as i32;
                let r = match c["sop"].as_str().unwrap() {
                    "add" => a + k, "sub" => a - k, "mul" => a * k, "div" => a / k, "neg" => -a,
                    s => panic!("sop {}", s),
                };
                unmk_num(&r, &|x| Some(x as i64))
            }
            ("scalar", _) => {
                // f64: inputs are integers; "div_s4" reports the result scaled by 4 (exact for k = +-1,2,4)
                let a: Interval<f64> = mk_num(&c["a"], &|v| v as f64);
                let k = c["k"].as_i64().unwrap() as f64;
                let sop = c["sop"].as_str().unwrap();
                let r = match sop {
                    "add" => a + k, "sub" => a - k, "mul" => a * k, "div_s4" => a / k, "neg" => -a,
                    s => panic!("sop {}", s),
                };
                let scale = if sop == "div_s4" { 4.0 } else { 1.0 };
                unmk_num(&r, &|x: f64| { let y = x * scale; if y.fract() == 0.0 && y.abs() < 1e9 { Some(y as i64) } else { None } })
            }
            ("binary", "i32") => {
                let a: Interval<i32> = mk_num(&c["a"], &|v| v as i32);
                let b: Interval<i32> = mk_num(&c["b"], &|v| v as i32);
                let r = if c["bop"] == "add" { a + b } else { a - b };
                unmk_num(&r, &|x| Some(x as i64))
            }
            ("binary", _) => {
                let a: Interval<f64> = mk_num(&c["a"], &|v| v as f64);
                let b: Interval<f64> = mk_num(&c["b"], &|v| v as f64);
                let r = if c["bop"] == "add" { a + b } else { a - b };
                unmk_num(&r, &|x: f64| if x.fract() == 0.0 && x.abs() < 1e9 { Some(x as i64) } else { None })
            }
            ("relative", _) => {
                // bounds are given scaled by `scale` (a power of two): x = X / scale
                // optional "dexp": both intervals additionally scaled by 2^-dexp (the relative interval is invariant)
                let s = c["scale"].as_i64().unwrap() as f64;
                let t = (2f64).powi(-(c.get("dexp").and_then(|x| x.as_i64()).unwrap_or(0) as i32));
                let a: Interval<f64> = mk_num(&c["a"], &|v| v as f64 / s * t);
                let b: Interval<f64> = mk_num(&c["b"], &|v| v as f64 / s * t);
                let r = a.relative_to(&b);
                unmk_num(&r, &|x: f64| { let y = x * s; if y.fract() == 0.0 && y.abs() < 1e9 { Some(y as i64) } else { None } })
            }
            (k, t) => panic!("arith {} {}", k, t),
        }
    });
    let _ = op;
    ev
}

/// relative_to on bounds whose quotients are not exactly representable: the result bounds are
/// reported as encoded floats (the validator checks that they are the correctly rounded quotients)
fn rel_round(case: &Value) -> Value {
    let mut ev = case.clone();
    let s = case["scale"].as_i64().unwrap() as f64;
    let a: Interval<f64> = mk_num(&case["a"], &|v| v as f64 / s);
    let b: Interval<f64> = mk_num(&case["b"], &|v| v as f64 / s);
    ev["out"] = match std::panic::catch_unwind(std::panic::AssertUnwindSafe(|| a.relative_to(&b))) {
        Ok(Interval::TwoSided(x, y)) => json!({"tag": "ok", "iv": {"k": "two", "lo": enc::enc_f64(x), "hi": enc::enc_f64(y)}}),
        Ok(Interval::UpperOneSided(x)) => json!({"tag": "ok", "iv": {"k": "up", "lo": enc::enc_f64(x)}}),
        Ok(Interval::LowerOneSided(y)) => json!({"tag": "ok", "iv": {"k": "low", "hi": enc::enc_f64(y)}}),
        Err(_) => json!({"tag": "panic"}),
    };
    ev
}

fn copy_eq(iv: &Interval<f64>) -> bool { let c = *iv; c == *iv }

fn op_kind(c: &Value) -> &'static str {
    match c["op"].as_str().unwrap() {
        "iv.scalar" => "scalar",
        "iv.binary" => "binary",
        _ => "relative",
    }
}

// ---------------------------------------------------------------------------------------
// approximate equality (C19): float intervals with explicitly encoded bounds

fn mk_f(a: &Value) -> Interval<f64> {
    match a["k"].as_str().unwrap() {
        "two" => Interval::TwoSided(enc::dec_f64(&a["lo"]), enc::dec_f64(&a["hi"])),
        "up" => Interval::UpperOneSided(enc::dec_f64(&a["lo"])),
        "low" => Interval::LowerOneSided(enc::dec_f64(&a["hi"])),
        k => panic!("kind {}", k),
    }
}

fn approx(case: &Value) -> Value {
    use approx::{AbsDiffEq, RelativeEq, UlpsEq};
    let mut ev = case.clone();
    let a = mk_f(&case["a"]);
    let b = mk_f(&case["b"]);
    let eps = enc::dec_f64(&case["eps"]);
    let mode = case["mode"].as_str().unwrap();
    let near = |x: f64, y: f64| -> bool {
        match mode {
            "abs" => f64::abs_diff_eq(&x, &y, eps),
            "rel" => f64::relative_eq(&x, &y, eps, enc::dec_f64(&case["max_rel"])),
            "ulps" => f64::ulps_eq(&x, &y, eps, case["max_ulps"].as_u64().unwrap() as u32),
            m => panic!("mode {}", m),
        }
    };
    let whole = |a: &Interval<f64>, b: &Interval<f64>| -> bool {
        match mode {
            "abs" => a.abs_diff_eq(b, eps),
            "rel" => a.relative_eq(b, eps, enc::dec_f64(&case["max_rel"])),
            "ulps" => a.ulps_eq(b, eps, case["max_ulps"].as_u64().unwrap() as u32),
            m => panic!("mode {}", m),
        }
    };
    // the provided negative forms (`abs_diff_ne`, `relative_ne`, `ulps_ne`: what `assert_*_ne!` calls)
    let whole_ne = |a: &Interval<f64>, b: &Interval<f64>| -> bool {
        match mode {
            "abs" => a.abs_diff_ne(b, eps),
            "rel" => a.relative_ne(b, eps, enc::dec_f64(&case["max_rel"])),
            "ulps" => a.ulps_ne(b, eps, case["max_ulps"].as_u64().unwrap() as u32),
            m => panic!("mode {}", m),
        }
    };
    ev["res_ne"] = json!(whole_ne(&a, &b));
    ev["res_ne_sym"] = json!(whole_ne(&b, &a));
    ev["res"] = json!(whole(&a, &b));
    ev["res_sym"] = json!(whole(&b, &a));
    ev["res_refl"] = json!(whole(&a, &a));
    // what the element type says about each bound compared with itself (false for a negative epsilon)
    ev["self_lo"] = json!(a.left().map(|x| near(*x, *x)).unwrap_or(true));
    ev["self_hi"] = json!(a.right().map(|x| near(*x, *x)).unwrap_or(true));
    // the default tolerances are the element type's
    ev["defaults_same"] = json!(<Interval<f64> as AbsDiffEq>::default_epsilon() == f64::default_epsilon()
        && <Interval<f64> as RelativeEq>::default_max_relative() == f64::default_max_relative()
        && <Interval<f64> as UlpsEq>::default_max_ulps() == f64::default_max_ulps()
        && <Interval<f32> as AbsDiffEq>::default_epsilon() == f32::default_epsilon()
        && <Interval<f32> as RelativeEq>::default_max_relative() == f32::default_max_relative()
        && <Interval<f32> as UlpsEq>::default_max_ulps() == f32::default_max_ulps());
    ev["exact_eq"] = json!(a == b);
    // element-level results of the element type's own comparison, per bound pair
    if let (Some(x), Some(y)) = (a.left(), b.left()) {
        ev["near_lo"] = json!(near(*x, *y));
        ev["alo"] = enc::enc_f64(*x);
        ev["blo"] = enc::enc_f64(*y);
    }
    if let (Some(x), Some(y)) = (a.right(), b.right()) {
        ev["near_hi"] = json!(near(*x, *y));
        ev["ahi"] = enc::enc_f64(*x);
        ev["bhi"] = enc::enc_f64(*y);
    }
    ev["epsv"] = enc::enc_f64(eps);
    ev
}

pub fn run(case: &Value) -> Vec<Value> {
    let op = case["op"].as_str().unwrap();
    let ty = case["ty"].as_str().unwrap_or("i32");
    let ev = match op {
        "iv.observe" => { let mut ev = case.clone(); ev["res"] = observe(case, ty); ev }
        "iv.eqhash" => { let mut ev = case.clone(); ev["res"] = eqhash(case, ty); ev }
        "iv.scalar" | "iv.binary" | "iv.relative_to" => arith(case, ty),
        "iv.approx" => approx(case),
        "iv.relative_round" => rel_round(case),
        "iv.infinite_bounds" => {
            // two-sided float intervals whose bounds are infinities: codes 0 = -inf, 1 = 1.0, 2 = +inf
            let f = |c: i64| match c { 0 => f64::NEG_INFINITY, 1 => 1.0, _ => f64::INFINITY };
            let (lo, hi) = (f(case["lo"].as_i64().unwrap()), f(case["hi"].as_i64().unwrap()));
            let mut ev = case.clone();
            ev["out"] = match std::panic::catch_unwind(|| Interval::new(lo, hi)) {
                Ok(Ok(iv)) => json!({"tag": "ok", "two": iv.is_two_sided(), "degenerate": iv.is_degenerate(),
                                     "width_some": iv.width().is_some(), "has_low": iv.low().is_some(), "has_high": iv.high().is_some(),
                                     "low_same": iv.low_f().to_bits() == lo.to_bits(), "high_same": iv.high_f().to_bits() == hi.to_bits(),
                                     "contains_lo": iv.contains(&lo), "contains_hi": iv.contains(&hi),
                                     "copy_eq": copy_eq(&iv)}),
                Ok(Err(_)) => json!({"tag": "err"}),
                Err(_) => json!({"tag": "panic"}),
            };
            ev
        }
        _ => {
            let r = match ty {
                "i32" => generic_i32(case, ty),
                "i8" => generic_i8(case, ty),
                "u8" => generic_u8(case, ty),
                "f64" | "f64nz" | "f64pz" | "f64inf" | "f64ext" | "f64xb" => generic_f64(case, ty),
                "char" => generic_char(case, ty),
                "String" | "Stringlong" => generic_string(case, ty),
                t => panic!("type {}", t),
            };
            r.unwrap_or_else(|| json!({"op": "harness.unknown", "case": case}))
        }
    };
    vec![ev]
}
