//! Incremental statistics as state machines (properties C09, C20 histories, C05 rejection).
//!
//! A case is a whole program (sequence of API calls over a register file) emitted by TLC.
//! After every step the harness logs, for every register: the multiset it has been fed
//! (harness bookkeeping, *validated* by TLC against the specification's abstract state),
//! all observations (taken twice), and the observations of a one-shot batch computation on
//! that multiset.  Comparison and verdict are TLC's.
use crate::enc::{self, FloatEnc};
use serde_json::{json, Value};
use stats_ci::comparison::{Paired, Unpaired};
use stats_ci::error::CIError;
use stats_ci::mean::{Arithmetic, Geometric, Harmonic, StatisticsOps};
use stats_ci::{proportion, quantile, Confidence, Interval};
use std::panic::{catch_unwind, AssertUnwindSafe};

pub fn err_json(e: &CIError) -> Value {
    match e {
        CIError::TooFewSamples(n) => json!({"tag": "err", "variant": "TooFewSamples", "n": n}),
        CIError::TooFewSuccesses(k, n, x) => json!({"tag": "err", "variant": "TooFewSuccesses", "k": k, "n": n, "x": enc::enc_f64(*x)}),
        CIError::TooFewFailures(k, n, x) => json!({"tag": "err", "variant": "TooFewFailures", "k": k, "n": n, "x": enc::enc_f64(*x)}),
        CIError::InvalidConfidenceLevel(x) => json!({"tag": "err", "variant": "InvalidConfidenceLevel", "x": enc::enc_f64(*x)}),
        CIError::InvalidQuantile(x) => json!({"tag": "err", "variant": "InvalidQuantile", "x": enc::enc_f64(*x)}),
        CIError::InvalidSuccesses(k, n) => json!({"tag": "err", "variant": "InvalidSuccesses", "k": k, "n": n}),
        CIError::NonPositiveValue(x) => json!({"tag": "err", "variant": "NonPositiveValue", "x": enc::enc_f64(*x)}),
        CIError::InvalidInputData => json!({"tag": "err", "variant": "InvalidInputData"}),
        CIError::FloatConversionError(s) => json!({"tag": "err", "variant": "FloatConversionError", "msg": s}),
        CIError::IndexError(x, n) => json!({"tag": "err", "variant": "IndexError", "x": enc::enc_f64(*x), "n": n}),
        CIError::Error(s) => json!({"tag": "err", "variant": "Error", "msg": s}),
        CIError::IntervalError(e) => json!({"tag": "err", "variant": "IntervalError", "msg": format!("{:?}", e)}),
        CIError::DifferentSampleSizes(a, b) => json!({"tag": "err", "variant": "DifferentSampleSizes", "la": a, "lb": b}),
    }
}

fn err_short(e: &CIError) -> String {
    match e {
        CIError::TooFewSamples(n) => format!("TooFewSamples({})", n),
        CIError::NonPositiveValue(x) => format!("NonPositiveValue({:016x})", x.to_bits()),
        CIError::DifferentSampleSizes(a, b) => format!("DifferentSampleSizes({},{})", a, b),
        CIError::InvalidSuccesses(k, n) => format!("InvalidSuccesses({},{})", k, n),
        CIError::TooFewSuccesses(k, n, _) => format!("TooFewSuccesses({},{})", k, n),
        CIError::TooFewFailures(k, n, _) => format!("TooFewFailures({},{})", k, n),
        e => format!("{:?}", e).chars().take(60).collect(),
    }
}

pub trait Fl: num_traits::Float + FloatEnc + std::fmt::Debug + Send + Sync + 'static {
    fn hex(self) -> String;
}
impl Fl for f64 {
    fn hex(self) -> String { format!("{:016x}", self.to_bits()) }
}
impl Fl for f32 {
    fn hex(self) -> String { format!("{:08x}", self.to_bits()) }
}

pub fn iv_str<F: Fl>(r: &Result<Interval<F>, CIError>) -> String {
    match r {
        Ok(Interval::TwoSided(a, b)) => format!("two:{}:{}", a.hex(), b.hex()),
        Ok(Interval::UpperOneSided(a)) => format!("up:{}", a.hex()),
        Ok(Interval::LowerOneSided(b)) => format!("low:{}", b.hex()),
        Err(e) => format!("err:{}", err_short(e)),
    }
}
fn iv_str_usize(r: &Result<Interval<usize>, CIError>) -> String {
    match r {
        Ok(Interval::TwoSided(a, b)) => format!("two:{}:{}", a, b),
        Ok(Interval::UpperOneSided(a)) => format!("up:{}", a),
        Ok(Interval::LowerOneSided(b)) => format!("low:{}", b),
        Err(e) => format!("err:{}", err_short(e)),
    }
}

/// observation guard: a panic inside an accessor is data
fn g<T: std::fmt::Display>(f: impl FnOnce() -> T) -> String {
    match catch_unwind(AssertUnwindSafe(f)) {
        Ok(v) => format!("{}", v),
        Err(_) => "panic".to_string(),
    }
}
fn gf<F: Fl>(vals: &mut Vec<Value>, f: impl FnOnce() -> F) -> String {
    match catch_unwind(AssertUnwindSafe(f)) {
        Ok(v) => { vals.push(v.enc()); v.hex() }
        Err(_) => { vals.push(json!({"tag": "panic"})); "panic".to_string() }
    }
}
fn gi<F: Fl>(vals: &mut Vec<Value>, f: impl FnOnce() -> Result<Interval<F>, CIError>) -> String {
    match catch_unwind(AssertUnwindSafe(f)) {
        Ok(r) => {
            if let Ok(iv) = &r {
                if let Some(x) = iv.left() { vals.push(x.enc()); }
                if let Some(x) = iv.right() { vals.push(x.enc()); }
            }
            iv_str(&r)
        }
        Err(_) => "panic".to_string(),
    }
}

/// the queries of one observation; the last repeats the first, so that the query before an update and the query after
/// it carry the same confidence (a state that remembers "the last answer" must forget it when it is updated)
pub fn confs() -> [(&'static str, Confidence); 4] {
    [("t95", Confidence::new_two_sided(0.95)), ("u90", Confidence::new_upper(0.9)), ("l99", Confidence::new_lower(0.99)),
     ("t95b", Confidence::new_two_sided(0.95))]
}

/// value code -> float, per flavour
fn val<F: Fl>(fl: &str, code: i64) -> F {
    let x: f64 = match fl {
        "geo" | "harm" if code <= 0 => match code { 0 => 0.0, -1 => -1.0, -2 => f64::NEG_INFINITY, _ => -0.0 },
        // 50 + d: the fraction d / 10 (harmonic: 10 / d) - not exactly representable, sums and squares round
        "harm" if (50..60).contains(&code) => 10.0 / (code - 50) as f64,
        _ if (50..60).contains(&code) => (code - 50) as f64 / 10.0,
        "harm" => (2.0f64).powi(code as i32 - 1),            // 1, 2, 4, ...: exact reciprocals
        _ if code >= 100 => 16777216.0 * (code - 99) as f64,  // 2^24, 2^25-ish: f32 sums round, compensation != 0
        _ => code as f64,
    };
    F::from_f64_lossy(x)
}

enum Reg<F: Fl> {
    Arith(Arithmetic<F>),
    Geo(Geometric<F>),
    Harm(Harmonic<F>),
    Paired(Paired<F>),
    Unpaired(Unpaired<F>),
    Prop(proportion::Stats),
    Quant(quantile::Stats),
}

impl<F: Fl> Reg<F> {
    fn new(fl: &str) -> Self {
        match fl {
            "arith" => Reg::Arith(Arithmetic::new()),
            "geo" => Reg::Geo(Geometric::new()),
            "harm" => Reg::Harm(Harmonic::new()),
            "paired" => Reg::Paired(Paired::default()),
            "unpaired" => Reg::Unpaired(Unpaired::default()),
            "prop" => Reg::Prop(proportion::Stats::default()),
            "quant" => Reg::Quant(quantile::Stats::default()),
            f => panic!("flavour {}", f),
        }
    }
    fn clone_reg(&self) -> Self {
        match self {
            Reg::Arith(s) => Reg::Arith(*s),          // Copy
            Reg::Geo(s) => Reg::Geo(*s),
            Reg::Harm(s) => Reg::Harm(*s),
            Reg::Paired(s) => Reg::Paired(s.clone()),
            Reg::Unpaired(s) => Reg::Unpaired(s.clone()),
            Reg::Prop(s) => Reg::Prop(*s),
            Reg::Quant(s) => Reg::Quant(*s),
        }
    }
    /// self += rhs
    fn add_assign(&mut self, rhs: Self) {
        match (self, rhs) {
            (Reg::Arith(a), Reg::Arith(b)) => *a += b,
            (Reg::Geo(a), Reg::Geo(b)) => *a += b,
            (Reg::Harm(a), Reg::Harm(b)) => *a += b,
            (Reg::Paired(a), Reg::Paired(b)) => *a += b,
            (Reg::Unpaired(a), Reg::Unpaired(b)) => *a += b,
            (Reg::Prop(a), Reg::Prop(b)) => *a += b,
            (Reg::Quant(a), Reg::Quant(b)) => *a += b,
            _ => panic!("flavour mismatch"),
        }
    }
    /// self + rhs
    fn add(self, rhs: Self) -> Self {
        match (self, rhs) {
            (Reg::Arith(a), Reg::Arith(b)) => Reg::Arith(a + b),
            (Reg::Geo(a), Reg::Geo(b)) => Reg::Geo(a + b),
            (Reg::Harm(a), Reg::Harm(b)) => Reg::Harm(a + b),
            (Reg::Paired(a), Reg::Paired(b)) => Reg::Paired(a + b),
            (Reg::Unpaired(a), Reg::Unpaired(b)) => Reg::Unpaired(a + b),
            (Reg::Prop(a), Reg::Prop(b)) => Reg::Prop(a + b),
            (Reg::Quant(a), Reg::Quant(b)) => Reg::Quant(a + b),
            _ => panic!("flavour mismatch"),
        }
    }
    fn count(&self) -> (i64, i64) {
        match self {
            Reg::Arith(s) => (s.sample_count() as i64, 0),
            Reg::Geo(s) => (s.sample_count() as i64, 0),
            Reg::Harm(s) => (s.sample_count() as i64, 0),
            Reg::Paired(s) => (s.sample_count() as i64, 0),
            Reg::Unpaired(s) => (s.stats_a().sample_count() as i64, s.stats_b().sample_count() as i64),
            Reg::Prop(s) => (s.population() as i64, s.successes() as i64),
            Reg::Quant(_) => (-1, 0),
        }
    }
    /// all observations as one canonical string + the float values in order
    fn observe(&self) -> (String, Vec<Value>) {
        let mut v: Vec<Value> = Vec::new();
        let mut s = String::new();
        match self {
            Reg::Arith(a) => {
                s += &format!("n={};", g(|| a.sample_count()));
                s += &format!("mean={};", gf(&mut v, || a.sample_mean()));
                s += &format!("var={};", gf(&mut v, || a.sample_variance()));
                s += &format!("std={};", gf(&mut v, || a.sample_std_dev()));
                s += &format!("sem={};", gf(&mut v, || a.sample_sem()));
                for (nm, c) in confs() { s += &format!("ci_{}={};", nm, gi(&mut v, || a.ci_mean(c))); }
            }
            Reg::Geo(a) => {
                s += &format!("n={};", g(|| a.sample_count()));
                s += &format!("mean={};", gf(&mut v, || a.sample_mean()));
                s += &format!("sem={};", gf(&mut v, || a.sample_sem()));
                for (nm, c) in confs() { s += &format!("ci_{}={};", nm, gi(&mut v, || a.ci_mean(c))); }
            }
            Reg::Harm(a) => {
                s += &format!("n={};", g(|| a.sample_count()));
                s += &format!("mean={};", gf(&mut v, || a.sample_mean()));
                s += &format!("sem={};", gf(&mut v, || a.sample_sem()));
                for (nm, c) in confs() { s += &format!("ci_{}={};", nm, gi(&mut v, || a.ci_mean(c))); }
            }
            Reg::Paired(a) => {
                s += &format!("n={};", g(|| a.sample_count()));
                s += &format!("mean={};", gf(&mut v, || a.sample_mean()));
                s += &format!("sem={};", gf(&mut v, || a.sample_sem()));
                for (nm, c) in confs() { s += &format!("ci_{}={};", nm, gi(&mut v, || a.ci_mean(c))); }
            }
            Reg::Unpaired(a) => {
                s += &format!("na={};nb={};", g(|| a.stats_a().sample_count()), g(|| a.stats_b().sample_count()));
                s += &format!("ma={};", gf(&mut v, || a.stats_a().sample_mean()));
                s += &format!("mb={};", gf(&mut v, || a.stats_b().sample_mean()));
                s += &format!("va={};", gf(&mut v, || a.stats_a().sample_variance()));
                s += &format!("vb={};", gf(&mut v, || a.stats_b().sample_variance()));
                for (nm, c) in confs() { s += &format!("ci_{}={};", nm, gi(&mut v, || a.ci_mean(c))); }
            }
            Reg::Prop(a) => {
                s += &format!("pop={};succ={};sig={};", g(|| a.population()), g(|| a.successes()), g(|| a.is_significant()));
                for (nm, c) in confs() { s += &format!("ci_{}={};", nm, g(|| iv_str(&a.ci(c)))); }
            }
            Reg::Quant(a) => {
                for (nm, c) in confs() {
                    s += &format!("ci_{}_50={};", nm, g(|| iv_str_usize(&a.ci(c, 0.5))));
                    s += &format!("ci_{}_30={};", nm, g(|| iv_str_usize(&a.ci(c, 0.3))));
                }
                s += &format!("idx25={};", g(|| match a.index(0.25) { Ok(i) => format!("{}", i), Err(e) => format!("err:{}", err_short(&e)) }));
            }
        }
        (s, v)
    }
    /// one-shot computation of the same flavour on a multiset of value codes
    fn batch(fl: &str, a: &[i64], b: &[i64]) -> Self {
        let av: Vec<F> = a.iter().map(|&c| val::<F>(fl, c)).collect();
        let bv: Vec<F> = b.iter().map(|&c| val::<F>(fl, c)).collect();
        match fl {
            "arith" => Reg::Arith(Arithmetic::from_iter(&av).unwrap()),
            "geo" => Reg::Geo(Geometric::from_iter(&av).unwrap()),
            "harm" => Reg::Harm(Harmonic::from_iter(&av).unwrap()),
            "paired" => {
                // the multiset holds differences d = x - y: feed (d, 0)
                let zeros: Vec<F> = av.iter().map(|_| F::zero()).collect();
                let mut p = Paired::default();
                p.extend(&av, &zeros).unwrap();
                Reg::Paired(p)
            }
            "unpaired" => Reg::Unpaired(Unpaired::from_iter(&av, &bv).unwrap()),
            "prop" => Reg::Prop(proportion::Stats::from_iter(a.iter().map(|&c| c == 1))),
            "quant" => Reg::Quant(quantile::Stats::new(a.len())),
            f => panic!("flavour {}", f),
        }
    }
}

fn ok_or_err(r: Result<(), CIError>) -> Value {
    match r {
        Ok(()) => json!({"tag": "ok"}),
        Err(e) => err_json(&e),
    }
}

fn ints(v: &Value) -> Vec<i64> {
    v.as_array().map(|a| a.iter().map(|x| x.as_i64().unwrap()).collect()).unwrap_or_default()
}

fn rle(mut xs: Vec<i64>) -> Value {
    xs.sort();
    let mut out: Vec<Value> = Vec::new();
    let mut i = 0;
    while i < xs.len() {
        let mut j = i;
        while j < xs.len() && xs[j] == xs[i] { j += 1; }
        out.push(json!([xs[i], (j - i) as i64]));
        i = j;
    }
    Value::Array(out)
}

#[cfg(feature = "serde")]
fn roundtrip<F: Fl + serde::Serialize + serde::de::DeserializeOwned>(reg: &Reg<F>) -> Result<(Reg<F>, bool, String), String> {
    macro_rules! rt {
        ($s:expr, $variant:path) => {{
            let js = serde_json::to_string($s).map_err(|e| format!("serialize: {}", e))?;
            let back = serde_json::from_str(&js).map_err(|e| format!("deserialize: {}", e))?;
            // and through a positional format; the state that continues the history is the one restored from it
            let toks = crate::poswire::to_tokens($s).map_err(|e| format!("positional serialize: {}", e))?;
            let pback = crate::poswire::from_tokens(&toks).map_err(|e| format!("positional deserialize: {}", e))?;
            // ... and through a self-describing tree whose maps are SORTED BY KEY (serde_json::Value without preserve_order;
            // what toml / BTreeMap-backed formats do): fields arrive in an order that is not the declaration order
            let tree = serde_json::to_value($s).map_err(|e| format!("tree serialize: {}", e))?;
            let tback = serde_json::from_value(tree).map_err(|e| format!("tree deserialize: {}", e))?;
            // value equality and field-by-field identity (the rendering of every restored copy is that of the original)
            let same = |x: &_| serde_json::to_string(x).map(|t| t == js).unwrap_or(false);
            let eq = &back == $s && &pback == $s && &tback == $s && same(&back) && same(&pback) && same(&tback);
            let back = if eq { pback } else { back };
            Ok(($variant(back), eq, js))
        }};
    }
    match reg {
        Reg::Arith(s) => rt!(s, Reg::Arith),
        Reg::Geo(s) => rt!(s, Reg::Geo),
        Reg::Harm(s) => rt!(s, Reg::Harm),
        Reg::Paired(s) => rt!(s, Reg::Paired),
        Reg::Unpaired(s) => rt!(s, Reg::Unpaired),
        Reg::Prop(s) => rt!(s, Reg::Prop),
        Reg::Quant(_) => Err("quantile::Stats is not serializable".to_string()),
    }
}

fn run_program<F: Fl + SerdeBound>(case: &Value) -> Vec<Value> {
    let has_rt = case["steps"].as_array().unwrap().iter().any(|a| a["a"] == "roundtrip");
    if !has_rt {
        return exec_program::<F>(case, false);
    }
    // twin run: the same history without the serialization round trips
    let twin = exec_program::<F>(case, true);
    let mut evs = exec_program::<F>(case, false);
    for (e, t) in evs.iter_mut().zip(twin.iter()) {
        let tw: Vec<Value> = t["regs"].as_array().unwrap().iter().map(|r| r["obs"].clone()).collect();
        e["twin"] = Value::Array(tw);
    }
    evs
}

#[cfg(feature = "serde")]
pub trait SerdeBound: serde::Serialize + serde::de::DeserializeOwned {}
#[cfg(feature = "serde")]
impl<T: serde::Serialize + serde::de::DeserializeOwned> SerdeBound for T {}
#[cfg(not(feature = "serde"))]
pub trait SerdeBound {}
#[cfg(not(feature = "serde"))]
impl<T> SerdeBound for T {}

fn exec_program<F: Fl + SerdeBound>(case: &Value, skip_roundtrip: bool) -> Vec<Value> {
    let fl = case["fl"].as_str().unwrap();
    let nreg = case["nreg"].as_u64().unwrap() as usize;
    let tol = case.get("tol").and_then(|t| t.as_bool()).unwrap_or(false);
    let mut regs: Vec<Reg<F>> = (0..nreg).map(|_| Reg::new(fl)).collect();
    let mut books: Vec<(Vec<i64>, Vec<i64>)> = vec![(vec![], vec![]); nreg];
    let mut evs = Vec::new();
    for (k, act) in case["steps"].as_array().unwrap().iter().enumerate() {
        let a = act["a"].as_str().unwrap();
        let r = act["r"].as_u64().unwrap() as usize - 1;
        let q = act.get("q").and_then(|x| x.as_u64()).map(|x| x as usize - 1).unwrap_or(0);
        let t = act.get("t").and_then(|x| x.as_u64()).map(|x| x as usize - 1).unwrap_or(0);
        let v = act.get("v").and_then(|x| x.as_i64()).unwrap_or(0);
        let w = act.get("w").and_then(|x| x.as_i64()).unwrap_or(0);
        let xs = ints(&act["xs"]);
        let ys = ints(&act["ys"]);
        let xf: Vec<F> = xs.iter().map(|&c| val::<F>(fl, c)).collect();
        let yf: Vec<F> = ys.iter().map(|&c| val::<F>(fl, c)).collect();
        let before = regs[r].count();
        let out: Value = match catch_unwind(AssertUnwindSafe(|| -> Value {
            match a {
                "new" => { regs[r] = Reg::new(fl); books[r] = (vec![], vec![]); json!({"tag": "ok"}) }
                "par_reduce" => {
                    // a real parallel reduction: partial states built and merged by rayon's scheduler
                    use rayon::prelude::*;
                    let chunks: Vec<Vec<i64>> = act["chunks"].as_array().unwrap().iter().map(ints).collect();
                    let fls = fl.to_string();
                    let reduced = chunks
                        .par_iter()
                        .map(|c| Reg::<F>::batch(&fls, c, &[]))
                        .reduce(|| Reg::<F>::new(&fls), |a, b| a.add(b));
                    regs[r] = reduced;
                    books[r] = (chunks.concat(), vec![]);
                    json!({"tag": "ok"})
                }
                "roundtrip" => {
                    if skip_roundtrip {
                        json!({"tag": "ok", "skipped": true})
                    } else {
                        #[cfg(feature = "serde")]
                        {
                            match roundtrip(&regs[r]) {
                                Ok((back, eq, js)) => { regs[r] = back; json!({"tag": "ok", "rt_eq": eq, "json": js}) }
                                Err(m) => json!({"tag": "rt_failed", "msg": m}),
                            }
                        }
                        #[cfg(not(feature = "serde"))]
                        { json!({"tag": "rt_unsupported"}) }
                    }
                }
                "clone" => { regs[q] = regs[r].clone_reg(); books[q] = books[r].clone(); json!({"tag": "ok"}) }
                "add_assign" => {
                    let rhs = regs[q].clone_reg();
                    regs[r].add_assign(rhs);
                    let bq = books[q].clone();
                    books[r].0.extend(bq.0); books[r].1.extend(bq.1);
                    json!({"tag": "ok"})
                }
                "add" => {
                    let lhs = regs[r].clone_reg();
                    let rhs = regs[q].clone_reg();
                    regs[t] = lhs.add(rhs);
                    let mut b = books[r].clone();
                    b.0.extend(books[q].0.clone()); b.1.extend(books[q].1.clone());
                    books[t] = b;
                    json!({"tag": "ok"})
                }
                "append" => {
                    let x = val::<F>(fl, v);
                    let res = match &mut regs[r] {
                        Reg::Arith(s) => StatisticsOps::append(s, x),
                        Reg::Geo(s) => s.append(x),
                        Reg::Harm(s) => s.append(x),
                        _ => panic!("append on {}", fl),
                    };
                    if res.is_ok() { books[r].0.push(v); }
                    ok_or_err(res)
                }
                "extend" | "from_iter" => {
                    let res = if a == "extend" {
                        match &mut regs[r] {
                            Reg::Arith(s) => s.extend(&xf),
                            Reg::Geo(s) => s.extend(&xf),
                            Reg::Harm(s) => s.extend(&xf),
                            _ => panic!("extend on {}", fl),
                        }
                    } else {
                        let made: Result<Reg<F>, CIError> = match fl {
                            "arith" => Arithmetic::from_iter(&xf).map(Reg::Arith),
                            "geo" => Geometric::from_iter(&xf).map(Reg::Geo),
                            "harm" => Harmonic::from_iter(&xf).map(Reg::Harm),
                            _ => panic!("from_iter on {}", fl),
                        };
                        match made { Ok(x) => { regs[r] = x; books[r] = (vec![], vec![]); Ok(()) } Err(e) => Err(e) }
                    };
                    // bookkeeping of a failed bulk call is resolved from the observable count
                    let after = regs[r].count().0;
                    let base = if a == "extend" { before.0 } else if res.is_ok() { 0 } else { before.0 };
                    let delivered = (after - base).max(0) as usize;
                    if a == "extend" || res.is_ok() {
                        books[r].0.extend(xs.iter().take(delivered).cloned());
                    }
                    ok_or_err(res)
                }
                "append_pair" => {
                    let res = match &mut regs[r] { Reg::Paired(s) => s.append_pair(val::<F>(fl, v), val::<F>(fl, w)), _ => panic!() };
                    if res.is_ok() { books[r].0.push(v - w); }
                    ok_or_err(res)
                }
                "extend_tuple" => {
                    let tup: Vec<(F, F)> = xf.iter().cloned().zip(yf.iter().cloned()).collect();
                    let res = match &mut regs[r] { Reg::Paired(s) => s.extend_tuple(&tup), _ => panic!() };
                    if res.is_ok() { for (x, y) in xs.iter().zip(ys.iter()) { books[r].0.push(x - y); } }
                    ok_or_err(res)
                }
                "extend_paired" => {
                    let res = match &mut regs[r] { Reg::Paired(s) => s.extend(&xf, &yf), _ => panic!() };
                    let after = regs[r].count().0;
                    let delivered = (after - before.0).max(0) as usize;
                    for (x, y) in xs.iter().zip(ys.iter()).take(delivered) { books[r].0.push(x - y); }
                    ok_or_err(res)
                }
                "append_a" | "append_b" | "append_pair_u" | "extend_a" | "extend_b" | "extend_ab" | "via_mut" => {
                    let s = match &mut regs[r] { Reg::Unpaired(s) => s, _ => panic!() };
                    let res = match a {
                        "append_a" => s.append_a(val::<F>(fl, v)),
                        "append_b" => s.append_b(val::<F>(fl, v)),
                        "append_pair_u" => s.append_pair(val::<F>(fl, v), val::<F>(fl, w)),
                        "extend_a" => s.extend_a(&xf),
                        "extend_b" => s.extend_b(&xf),
                        "extend_ab" => s.extend(&xf, &yf),
                        _ => {
                            let r1 = StatisticsOps::append(s.stats_a_mut(), val::<F>(fl, v));
                            let r2 = StatisticsOps::append(s.stats_b_mut(), val::<F>(fl, w));
                            r1.and(r2)
                        }
                    };
                    if res.is_ok() {
                        match a {
                            "append_a" => books[r].0.push(v),
                            "append_b" => books[r].1.push(v),
                            "append_pair_u" | "via_mut" => { books[r].0.push(v); books[r].1.push(w); }
                            "extend_a" => books[r].0.extend(xs.clone()),
                            "extend_b" => books[r].1.extend(xs.clone()),
                            _ => { books[r].0.extend(xs.clone()); books[r].1.extend(ys.clone()); }
                        }
                    }
                    ok_or_err(res)
                }
                "from_iter_u" | "new_from" => {
                    let made = if a == "from_iter_u" {
                        Unpaired::from_iter(&xf, &yf)
                    } else {
                        Arithmetic::from_iter(&xf).and_then(|sa| Arithmetic::from_iter(&yf).map(|sb| Unpaired::new(sa, sb)))
                    };
                    match made {
                        Ok(u) => { regs[r] = Reg::Unpaired(u); books[r] = (xs.clone(), ys.clone()); json!({"tag": "ok"}) }
                        Err(e) => err_json(&e),
                    }
                }
                "add_success" | "add_failure" | "extend_bool" | "extend_if" | "from_iter_bool" | "new_counts" => {
                    let bools: Vec<bool> = xs.iter().map(|&c| c == 1).collect();
                    if a == "from_iter_bool" {
                        // every other program collects from an iterator whose size hint is not exact (a filter)
                        regs[r] = Reg::Prop(if k % 2 == 0 { proportion::Stats::from_iter(bools.iter().cloned()) } else {
                            bools.iter().cloned().enumerate().flat_map(|(i, b)| [(i, b, true), (i, b, false)])
                                .filter(|t| t.2).map(|t| t.1).collect::<proportion::Stats>()
                        });
                        books[r] = (xs.clone(), vec![]);
                    } else if a == "new_counts" {
                        regs[r] = Reg::Prop(proportion::Stats::new(v as usize, w as usize));
                        books[r] = ((0..v).map(|i| if i < w { 1 } else { 0 }).collect(), vec![]);
                    } else {
                        let s = match &mut regs[r] { Reg::Prop(s) => s, _ => panic!() };
                        match a {
                            "add_success" => { s.add_success(); books[r].0.push(1); }
                            "add_failure" => { s.add_failure(); books[r].0.push(0); }
                            "extend_bool" => { s.extend(&bools); books[r].0.extend(xs.clone()); }
                            _ => { s.extend_if(&xs, |&c| c == 1); books[r].0.extend(xs.clone()); }
                        }
                    }
                    json!({"tag": "ok"})
                }
                "new_pop" => {
                    regs[r] = Reg::Quant(quantile::Stats::new(v as usize));
                    books[r] = (vec![1; v as usize], vec![]);
                    json!({"tag": "ok"})
                }
                other => panic!("unknown action {}", other),
            }
        })) {
            Ok(v) => v,
            Err(_) => json!({"tag": "panic"}),
        };
        let mut regv = Vec::new();
        for i in 0..nreg {
            let (o1, v1) = regs[i].observe();
            let (o2, _) = regs[i].observe();
            let (ca, cb) = regs[i].count();
            let mut sa = books[i].0.clone(); sa.sort();
            let mut sb = books[i].1.clone(); sb.sort();
            // the batch computation on what the register claims to hold (resolved from its observable count).  A register that
            // absorbed an inadmissible value makes that computation impossible: data for the validator, not a harness failure
            let breg = catch_unwind(AssertUnwindSafe(|| Reg::<F>::batch(fl, &sa, &sb)));
            let (ob, vb, have_batch) = match &breg {
                Ok(b) => { let (o, v) = b.observe(); (o, v, true) }
                Err(_) => ("unavailable: the books of this register hold a value its flavour rejects".to_string(), vec![], false),
            };
            let mut rv = json!({"r": i + 1, "bag": rle(sa), "bagb": rle(sb), "ca": ca, "cb": cb,
                                "obs": o1, "obs2": o2, "batch": ob});
            // the values themselves are logged where the renderings differ (and in tolerance mode): the property asks for
            // equality with the batch result UP TO ROUNDING, which the validator then decides on the numbers
            if have_batch && (tol || o1 != ob) { rv["obsv"] = Value::Array(v1); rv["batchv"] = Value::Array(vb); }
            regv.push(rv);
        }
        evs.push(json!({"op": "accum.step", "fl": fl, "ty": F::tyname(), "k": k + 1, "first": k == 0,
                        "nreg": nreg, "tol": tol, "act": act, "out": out, "regs": regv}));
    }
    evs
}

pub fn run(case: &Value) -> Vec<Value> {
    match case["op"].as_str().unwrap() {
        "accum.program" => {
            if case["ty"] == "f32" { run_program::<f32>(case) } else { run_program::<f64>(case) }
        }
        _ => vec![json!({"op": "harness.unknown", "case": case})],
    }
}
