//! Confidence operations (property C18).
use crate::{enc, guarded};
use serde_json::{json, Value};
use stats_ci::error::CIError;
use stats_ci::Confidence;

pub fn enc_conf(c: &Confidence) -> Value {
    let kind = match c {
        Confidence::TwoSided(_) => "two",
        Confidence::UpperOneSided(_) => "upper",
        Confidence::LowerOneSided(_) => "lower",
    };
    json!({"kind": kind, "level": enc::enc_f64(c.level())})
}

/// Build a confidence from a case record {"kind":..,"level":<number>} through the public
/// constructors (panics propagate to the caller's guard).
pub fn mk_conf(c: &Value) -> Confidence {
    let l = enc::dec_f64(&c["level"]);
    match c["kind"].as_str().unwrap() {
        "two" => Confidence::new_two_sided(l),
        "upper" => Confidence::new_upper(l),
        "lower" => Confidence::new_lower(l),
        k => panic!("kind {}", k),
    }
}

fn ord(o: Option<std::cmp::Ordering>) -> &'static str {
    match o {
        Some(std::cmp::Ordering::Less) => "lt",
        Some(std::cmp::Ordering::Greater) => "gt",
        Some(std::cmp::Ordering::Equal) => "eq",
        None => "none",
    }
}

pub fn run(case: &Value) -> Vec<Value> {
    let op = case["op"].as_str().unwrap();
    let mut ev = case.clone();
    match op {
        "conf.make" => {
            let c = case.clone();
            ev["levelv"] = enc::enc_f64(enc::dec_f64(&case["level"]));
            ev["out"] = guarded(move || {
                let l = enc::dec_f64(&c["level"]);
                let r: Result<Confidence, CIError> = match c["path"].as_str().unwrap() {
                    "new" => Ok(Confidence::new(l)),
                    "new_two_sided" => Ok(Confidence::new_two_sided(l)),
                    "new_upper" => Ok(Confidence::new_upper(l)),
                    "new_lower" => Ok(Confidence::new_lower(l)),
                    "try_from_f64" => Confidence::try_from(l),
                    "try_from_f32" => Confidence::try_from(l as f32),
                    p => panic!("path {}", p),
                };
                match r {
                    Ok(c) => json!({"tag": "ok", "conf": enc_conf(&c)}),
                    Err(CIError::InvalidConfidenceLevel(x)) => {
                        json!({"tag": "err", "variant": "InvalidConfidenceLevel", "arg": enc::enc_f64(x)})
                    }
                    Err(e) => json!({"tag": "err", "variant": format!("{:?}", e)}),
                }
            });
            if case["path"] == "try_from_f32" {
                // the value the conversion actually sees
                ev["levelv"] = enc::enc_f64(enc::dec_f64(&case["level"]) as f32 as f64);
            }
        }
        "conf.observe" => {
            let c = case.clone();
            ev["cin"] = json!({"kind": case["c"]["kind"], "level": enc::enc_f64(enc::dec_f64(&case["c"]["level"]))});
            ev["res"] = guarded(move || {
                let x = mk_conf(&c["c"]);
                let f = x.flipped();
                json!({
                    "tag": "ok",
                    "level": enc::enc_f64(x.level()),
                    "percent": enc::enc_f64(x.percent()),
                    "kind": x.kind(),
                    "is_two_sided": x.is_two_sided(), "is_one_sided": x.is_one_sided(),
                    "is_upper": x.is_upper(), "is_lower": x.is_lower(),
                    "flipped": enc_conf(&f),
                    "flipped_twice_eq": f.flipped() == x,
                    "clone_eq": x.clone() == x,
                    "default": enc_conf(&Confidence::default()),
                })
            });
        }
        "conf.cmp" => {
            let c = case.clone();
            ev["cin"] = json!({"kind": case["c"]["kind"], "level": enc::enc_f64(enc::dec_f64(&case["c"]["level"]))});
            ev["din"] = json!({"kind": case["d"]["kind"], "level": enc::enc_f64(enc::dec_f64(&case["d"]["level"]))});
            ev["res"] = guarded(move || {
                let a = mk_conf(&c["c"]);
                let b = mk_conf(&c["d"]);
                json!({"tag": "ok", "cmp": ord(a.partial_cmp(&b)),
                       "lt": a < b, "le": a <= b, "gt": a > b, "ge": a >= b, "eq": a == b, "ne": a != b})
            });
        }
        _ => return vec![json!({"op": "harness.unknown", "case": case})],
    }
    vec![ev]
}
