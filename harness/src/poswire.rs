//! A minimal POSITIONAL serde data format (in the style of bincode / postcard): values are written in declaration
//! order, without field names and without struct lengths.  Used for the C20 round trips next to serde_json:
//! a self-describing format forgives omitted or renamed fields, a positional one does not.
use serde::de::{self, DeserializeSeed, EnumAccess, IntoDeserializer, SeqAccess, VariantAccess, Visitor};
use serde::ser::{self, Serialize};
use std::fmt;

#[derive(Debug, Clone, PartialEq)]
pub enum Tok { Bool(bool), U(u64), I(i64), F32(u32), F64(u64), Str(String), Unit, None, Some, Variant(u32), Len(usize) }

#[derive(Debug)]
pub struct Error(pub String);
impl fmt::Display for Error { fn fmt(&self, f: &mut fmt::Formatter) -> fmt::Result { write!(f, "{}", self.0) } }
impl std::error::Error for Error {}
impl ser::Error for Error { fn custom<T: fmt::Display>(m: T) -> Self { Error(m.to_string()) } }
impl de::Error for Error { fn custom<T: fmt::Display>(m: T) -> Self { Error(m.to_string()) } }

pub fn to_tokens<T: Serialize>(x: &T) -> Result<Vec<Tok>, Error> {
    let mut s = Ser { out: Vec::new() };
    x.serialize(&mut s)?;
    Ok(s.out)
}
pub fn from_tokens<T: de::DeserializeOwned>(toks: &[Tok]) -> Result<T, Error> {
    let mut d = De { toks, pos: 0 };
    let v = T::deserialize(&mut d)?;
    if d.pos != toks.len() { return Err(Error(format!("{} trailing tokens", toks.len() - d.pos))); }
    Ok(v)
}

pub struct Ser { out: Vec<Tok> }
impl<'a> ser::Serializer for &'a mut Ser {
    type Ok = ();
    type Error = Error;
    type SerializeSeq = Self; type SerializeTuple = Self; type SerializeTupleStruct = Self; type SerializeTupleVariant = Self;
    type SerializeMap = Self; type SerializeStruct = Self; type SerializeStructVariant = Self;
    fn serialize_bool(self, v: bool) -> Result<(), Error> { self.out.push(Tok::Bool(v)); Ok(()) }
    fn serialize_i8(self, v: i8) -> Result<(), Error> { self.out.push(Tok::I(v as i64)); Ok(()) }
    fn serialize_i16(self, v: i16) -> Result<(), Error> { self.out.push(Tok::I(v as i64)); Ok(()) }
    fn serialize_i32(self, v: i32) -> Result<(), Error> { self.out.push(Tok::I(v as i64)); Ok(()) }
    fn serialize_i64(self, v: i64) -> Result<(), Error> { self.out.push(Tok::I(v)); Ok(()) }
    fn serialize_u8(self, v: u8) -> Result<(), Error> { self.out.push(Tok::U(v as u64)); Ok(()) }
    fn serialize_u16(self, v: u16) -> Result<(), Error> { self.out.push(Tok::U(v as u64)); Ok(()) }
    fn serialize_u32(self, v: u32) -> Result<(), Error> { self.out.push(Tok::U(v as u64)); Ok(()) }
    fn serialize_u64(self, v: u64) -> Result<(), Error> { self.out.push(Tok::U(v)); Ok(()) }
    fn serialize_f32(self, v: f32) -> Result<(), Error> { self.out.push(Tok::F32(v.to_bits())); Ok(()) }
    fn serialize_f64(self, v: f64) -> Result<(), Error> { self.out.push(Tok::F64(v.to_bits())); Ok(()) }
    fn serialize_char(self, v: char) -> Result<(), Error> { self.out.push(Tok::U(v as u64)); Ok(()) }
    fn serialize_str(self, v: &str) -> Result<(), Error> { self.out.push(Tok::Str(v.to_string())); Ok(()) }
    fn serialize_bytes(self, v: &[u8]) -> Result<(), Error> {
        self.out.push(Tok::Len(v.len()));
        for b in v { self.out.push(Tok::U(*b as u64)); }
        Ok(())
    }
    fn serialize_none(self) -> Result<(), Error> { self.out.push(Tok::None); Ok(()) }
    fn serialize_some<T: ?Sized + Serialize>(self, v: &T) -> Result<(), Error> { self.out.push(Tok::Some); v.serialize(self) }
    fn serialize_unit(self) -> Result<(), Error> { self.out.push(Tok::Unit); Ok(()) }
    fn serialize_unit_struct(self, _: &'static str) -> Result<(), Error> { self.out.push(Tok::Unit); Ok(()) }
    fn serialize_unit_variant(self, _: &'static str, i: u32, _: &'static str) -> Result<(), Error> { self.out.push(Tok::Variant(i)); Ok(()) }
    fn serialize_newtype_struct<T: ?Sized + Serialize>(self, _: &'static str, v: &T) -> Result<(), Error> { v.serialize(self) }
    fn serialize_newtype_variant<T: ?Sized + Serialize>(self, _: &'static str, i: u32, _: &'static str, v: &T) -> Result<(), Error> {
        self.out.push(Tok::Variant(i));
        v.serialize(self)
    }
    fn serialize_seq(self, len: Option<usize>) -> Result<Self, Error> {
        self.out.push(Tok::Len(len.ok_or_else(|| Error("sequence of unknown length".into()))?));
        Ok(self)
    }
    fn serialize_tuple(self, _: usize) -> Result<Self, Error> { Ok(self) }
    fn serialize_tuple_struct(self, _: &'static str, _: usize) -> Result<Self, Error> { Ok(self) }
    fn serialize_tuple_variant(self, _: &'static str, i: u32, _: &'static str, _: usize) -> Result<Self, Error> { self.out.push(Tok::Variant(i)); Ok(self) }
    fn serialize_map(self, len: Option<usize>) -> Result<Self, Error> {
        self.out.push(Tok::Len(len.ok_or_else(|| Error("map of unknown length".into()))?));
        Ok(self)
    }
    fn serialize_struct(self, _: &'static str, _: usize) -> Result<Self, Error> { Ok(self) }
    fn serialize_struct_variant(self, _: &'static str, i: u32, _: &'static str, _: usize) -> Result<Self, Error> { self.out.push(Tok::Variant(i)); Ok(self) }
}
macro_rules! seq_like {
    ($tr:path, $f:ident) => {
        impl<'a> $tr for &'a mut Ser {
            type Ok = ();
            type Error = Error;
            fn $f<T: ?Sized + Serialize>(&mut self, v: &T) -> Result<(), Error> { v.serialize(&mut **self) }
            fn end(self) -> Result<(), Error> { Ok(()) }
        }
    };
}
seq_like!(ser::SerializeSeq, serialize_element);
seq_like!(ser::SerializeTuple, serialize_element);
seq_like!(ser::SerializeTupleStruct, serialize_field);
seq_like!(ser::SerializeTupleVariant, serialize_field);
impl<'a> ser::SerializeMap for &'a mut Ser {
    type Ok = ();
    type Error = Error;
    fn serialize_key<T: ?Sized + Serialize>(&mut self, k: &T) -> Result<(), Error> { k.serialize(&mut **self) }
    fn serialize_value<T: ?Sized + Serialize>(&mut self, v: &T) -> Result<(), Error> { v.serialize(&mut **self) }
    fn end(self) -> Result<(), Error> { Ok(()) }
}
impl<'a> ser::SerializeStruct for &'a mut Ser {
    type Ok = ();
    type Error = Error;
    fn serialize_field<T: ?Sized + Serialize>(&mut self, _: &'static str, v: &T) -> Result<(), Error> { v.serialize(&mut **self) }
    fn end(self) -> Result<(), Error> { Ok(()) }
}
impl<'a> ser::SerializeStructVariant for &'a mut Ser {
    type Ok = ();
    type Error = Error;
    fn serialize_field<T: ?Sized + Serialize>(&mut self, _: &'static str, v: &T) -> Result<(), Error> { v.serialize(&mut **self) }
    fn end(self) -> Result<(), Error> { Ok(()) }
}

pub struct De<'t> { toks: &'t [Tok], pos: usize }
impl<'t> De<'t> {
    fn next(&mut self) -> Result<&'t Tok, Error> {
        let t = self.toks.get(self.pos).ok_or_else(|| Error("unexpected end of input".into()))?;
        self.pos += 1;
        Ok(t)
    }
    fn uint(&mut self) -> Result<u64, Error> { match self.next()? { Tok::U(v) => Ok(*v), t => Err(Error(format!("expected unsigned, found {:?}", t))) } }
    fn int(&mut self) -> Result<i64, Error> { match self.next()? { Tok::I(v) => Ok(*v), t => Err(Error(format!("expected signed, found {:?}", t))) } }
}
struct Access<'a, 't> { de: &'a mut De<'t>, left: usize }
impl<'de, 'a, 't> SeqAccess<'de> for Access<'a, 't> {
    type Error = Error;
    fn next_element_seed<S: DeserializeSeed<'de>>(&mut self, seed: S) -> Result<Option<S::Value>, Error> {
        if self.left == 0 { return Ok(None); }
        self.left -= 1;
        seed.deserialize(&mut *self.de).map(Some)
    }
    fn size_hint(&self) -> Option<usize> { Some(self.left) }
}
struct Enum<'a, 't> { de: &'a mut De<'t> }
impl<'de, 'a, 't> EnumAccess<'de> for Enum<'a, 't> {
    type Error = Error;
    type Variant = Self;
    fn variant_seed<S: DeserializeSeed<'de>>(self, seed: S) -> Result<(S::Value, Self), Error> {
        let idx = match self.de.next()? { Tok::Variant(i) => *i, t => return Err(Error(format!("expected variant, found {:?}", t))) };
        let v = seed.deserialize(idx.into_deserializer())?;
        Ok((v, self))
    }
}
impl<'de, 'a, 't> VariantAccess<'de> for Enum<'a, 't> {
    type Error = Error;
    fn unit_variant(self) -> Result<(), Error> { Ok(()) }
    fn newtype_variant_seed<S: DeserializeSeed<'de>>(self, seed: S) -> Result<S::Value, Error> { seed.deserialize(self.de) }
    fn tuple_variant<V: Visitor<'de>>(self, len: usize, v: V) -> Result<V::Value, Error> { v.visit_seq(Access { de: self.de, left: len }) }
    fn struct_variant<V: Visitor<'de>>(self, f: &'static [&'static str], v: V) -> Result<V::Value, Error> { v.visit_seq(Access { de: self.de, left: f.len() }) }
}
impl<'de, 'a, 't> de::Deserializer<'de> for &'a mut De<'t> {
    type Error = Error;
    fn deserialize_any<V: Visitor<'de>>(self, _: V) -> Result<V::Value, Error> { Err(Error("the positional format is not self-describing".into())) }
    fn deserialize_bool<V: Visitor<'de>>(self, v: V) -> Result<V::Value, Error> {
        match self.next()? { Tok::Bool(b) => v.visit_bool(*b), t => Err(Error(format!("expected bool, found {:?}", t))) }
    }
    fn deserialize_i8<V: Visitor<'de>>(self, v: V) -> Result<V::Value, Error> { let x = self.int()?; v.visit_i64(x) }
    fn deserialize_i16<V: Visitor<'de>>(self, v: V) -> Result<V::Value, Error> { let x = self.int()?; v.visit_i64(x) }
    fn deserialize_i32<V: Visitor<'de>>(self, v: V) -> Result<V::Value, Error> { let x = self.int()?; v.visit_i64(x) }
    fn deserialize_i64<V: Visitor<'de>>(self, v: V) -> Result<V::Value, Error> { let x = self.int()?; v.visit_i64(x) }
    fn deserialize_u8<V: Visitor<'de>>(self, v: V) -> Result<V::Value, Error> { let x = self.uint()?; v.visit_u64(x) }
    fn deserialize_u16<V: Visitor<'de>>(self, v: V) -> Result<V::Value, Error> { let x = self.uint()?; v.visit_u64(x) }
    fn deserialize_u32<V: Visitor<'de>>(self, v: V) -> Result<V::Value, Error> { let x = self.uint()?; v.visit_u64(x) }
    fn deserialize_u64<V: Visitor<'de>>(self, v: V) -> Result<V::Value, Error> { let x = self.uint()?; v.visit_u64(x) }
    fn deserialize_f32<V: Visitor<'de>>(self, v: V) -> Result<V::Value, Error> {
        match self.next()? { Tok::F32(b) => v.visit_f32(f32::from_bits(*b)), t => Err(Error(format!("expected f32, found {:?}", t))) }
    }
    fn deserialize_f64<V: Visitor<'de>>(self, v: V) -> Result<V::Value, Error> {
        match self.next()? { Tok::F64(b) => v.visit_f64(f64::from_bits(*b)), t => Err(Error(format!("expected f64, found {:?}", t))) }
    }
    fn deserialize_char<V: Visitor<'de>>(self, v: V) -> Result<V::Value, Error> {
        let x = self.uint()?;
        v.visit_char(char::from_u32(x as u32).ok_or_else(|| Error("bad char".into()))?)
    }
    fn deserialize_str<V: Visitor<'de>>(self, v: V) -> Result<V::Value, Error> { self.deserialize_string(v) }
    fn deserialize_string<V: Visitor<'de>>(self, v: V) -> Result<V::Value, Error> {
        match self.next()? { Tok::Str(s) => v.visit_string(s.clone()), t => Err(Error(format!("expected string, found {:?}", t))) }
    }
    fn deserialize_bytes<V: Visitor<'de>>(self, v: V) -> Result<V::Value, Error> { self.deserialize_byte_buf(v) }
    fn deserialize_byte_buf<V: Visitor<'de>>(self, v: V) -> Result<V::Value, Error> {
        let n = match self.next()? { Tok::Len(n) => *n, t => return Err(Error(format!("expected length, found {:?}", t))) };
        let mut b = Vec::with_capacity(n);
        for _ in 0..n { b.push(self.uint()? as u8); }
        v.visit_byte_buf(b)
    }
    fn deserialize_option<V: Visitor<'de>>(self, v: V) -> Result<V::Value, Error> {
        match self.next()? { Tok::None => v.visit_none(), Tok::Some => v.visit_some(self), t => Err(Error(format!("expected option, found {:?}", t))) }
    }
    fn deserialize_unit<V: Visitor<'de>>(self, v: V) -> Result<V::Value, Error> {
        match self.next()? { Tok::Unit => v.visit_unit(), t => Err(Error(format!("expected unit, found {:?}", t))) }
    }
    fn deserialize_unit_struct<V: Visitor<'de>>(self, _: &'static str, v: V) -> Result<V::Value, Error> { self.deserialize_unit(v) }
    fn deserialize_newtype_struct<V: Visitor<'de>>(self, _: &'static str, v: V) -> Result<V::Value, Error> { v.visit_newtype_struct(self) }
    fn deserialize_seq<V: Visitor<'de>>(self, v: V) -> Result<V::Value, Error> {
        let n = match self.next()? { Tok::Len(n) => *n, t => return Err(Error(format!("expected length, found {:?}", t))) };
        v.visit_seq(Access { de: self, left: n })
    }
    fn deserialize_tuple<V: Visitor<'de>>(self, len: usize, v: V) -> Result<V::Value, Error> { v.visit_seq(Access { de: self, left: len }) }
    fn deserialize_tuple_struct<V: Visitor<'de>>(self, _: &'static str, len: usize, v: V) -> Result<V::Value, Error> { v.visit_seq(Access { de: self, left: len }) }
    fn deserialize_map<V: Visitor<'de>>(self, _: V) -> Result<V::Value, Error> { Err(Error("maps are not used by the crate".into())) }
    fn deserialize_struct<V: Visitor<'de>>(self, _: &'static str, f: &'static [&'static str], v: V) -> Result<V::Value, Error> {
        v.visit_seq(Access { de: self, left: f.len() })
    }
    fn deserialize_enum<V: Visitor<'de>>(self, _: &'static str, _: &'static [&'static str], v: V) -> Result<V::Value, Error> { v.visit_enum(Enum { de: self }) }
    fn deserialize_identifier<V: Visitor<'de>>(self, _: V) -> Result<V::Value, Error> { Err(Error("identifiers are not transmitted".into())) }
    fn deserialize_ignored_any<V: Visitor<'de>>(self, _: V) -> Result<V::Value, Error> { Err(Error("cannot skip a value of unknown shape".into())) }
    fn is_human_readable(&self) -> bool { false }
}
