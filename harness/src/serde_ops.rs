//! C20: serde round trips of Confidence and Interval values (serde-enabled build only).
use crate::{conf, guarded, iv};
use serde_json::{json, Value};
use stats_ci::Interval;

fn rt<T: serde::Serialize + serde::de::DeserializeOwned + PartialEq>(x: &T) -> Value {
    let js = match serde_json::to_string(x) {
        Ok(s) => s,
        Err(e) => return json!({"tag": "ser_failed", "msg": e.to_string()}),
    };
    let back: T = match serde_json::from_str(&js) {
        Ok(b) => b,
        Err(e) => return json!({"tag": "de_failed", "msg": e.to_string(), "json": js}),
    };
    let again = serde_json::to_string(&back).unwrap_or_default();
    // the same through a positional format (no field names, declaration order)
    let toks = match crate::poswire::to_tokens(x) {
        Ok(t) => t,
        Err(e) => return json!({"tag": "ser_failed", "msg": format!("positional: {}", e)}),
    };
    let pback: T = match crate::poswire::from_tokens(&toks) {
        Ok(b) => b,
        Err(e) => return json!({"tag": "de_failed", "msg": format!("positional: {}", e), "json": js}),
    };
    let ptoks = crate::poswire::to_tokens(&pback).unwrap_or_default();
    // ... and through a self-describing tree whose maps are sorted by key (fields arrive out of declaration order)
    let tback: T = match serde_json::to_value(x).and_then(serde_json::from_value) {
        Ok(b) => b,
        Err(e) => return json!({"tag": "de_failed", "msg": format!("sorted tree: {}", e), "json": js}),
    };
    let tagain = serde_json::to_string(&tback).unwrap_or_default();
    json!({"tag": "ok", "eq": &back == x && &pback == x && &tback == x, "same_text": again == js && ptoks == toks && tagain == js, "json": js})
}

pub fn run(case: &Value) -> Vec<Value> {
    let mut ev = case.clone();
    let c = case.clone();
    ev["out"] = guarded(move || match c["op"].as_str().unwrap() {
        "serde.conf" => rt(&conf::mk_conf(&c["c"])),
        // an interval as the crate's own API returns it for references over NEGATIVE values (the first bound of the result
        // exceeds the second one on the pinned tree): whatever a public call returns must survive the round trip
        "serde.interval" if c.get("via").and_then(|v| v.as_str()) == Some("relative_to") => {
            let x = Interval::new(-4.0f64, -2.0).unwrap();
            let r = Interval::new(-8.0f64, -4.0).unwrap();
            match std::panic::catch_unwind(|| x.relative_to(&r)) {
                Ok(res) => rt(&res),
                Err(_) => json!({"tag": "ok", "eq": true, "same_text": true, "json": "relative_to refuses the reference: no such value"}),
            }
        }
        "serde.interval" => {
            let n = c["n"].as_i64().unwrap_or(3);
            match c["ty"].as_str().unwrap() {
                "f64" => { let a: Interval<f64> = iv::mk(&c["a"], n, "f64"); rt(&a) }
                "i32" => { let a: Interval<i32> = iv::mk(&c["a"], n, "i32"); rt(&a) }
                _ => { let a: Interval<String> = iv::mk(&c["a"], n, "String"); rt(&a) }
            }
        }
        // states whose sample count exceeds 32 bits (counts are usize): reached by doubling a small state with `+`
        "serde.state" => {
            use stats_ci::{comparison, mean, proportion, StatisticsOps};
            let d = c["doublings"].as_u64().unwrap_or(0);
            macro_rules! doubled { ($s:expr) => {{ let mut s = $s; for _ in 0..d { s = s.clone() + s.clone(); } s }}; }
            match c["kind"].as_str().unwrap() {
                "prop" => {
                    let n = (c["nbig"]["a"].as_u64().unwrap() as usize) << c["nbig"]["p"].as_u64().unwrap();
                    rt(&proportion::Stats::new(n, c["k"].as_u64().unwrap() as usize))
                }
                "arith" => rt(&doubled!(mean::Arithmetic::<f64>::from_iter(&[1.0, 2.0, 4.0]).unwrap())),
                "arith32" => rt(&doubled!(mean::Arithmetic::<f32>::from_iter(&[1.0f32, 2.0, 4.0]).unwrap())),
                "geo" => rt(&doubled!(mean::Geometric::<f64>::from_iter(&[1.0, 2.0, 4.0]).unwrap())),
                "harm" => rt(&doubled!(mean::Harmonic::<f64>::from_iter(&[1.0, 2.0, 4.0]).unwrap())),
                "paired" => {
                    let mut p = comparison::Paired::<f64>::default();
                    p.extend(&[3.0, 5.0, 9.0], &[1.0, 2.0, 4.0]).unwrap();
                    rt(&doubled!(p))
                }
                "unpaired" => rt(&doubled!(comparison::Unpaired::<f64>::from_iter(&[3.0, 5.0, 9.0], &[1.0, 2.0]).unwrap())),
                k => panic!("kind {}", k),
            }
        }
        o => panic!("op {}", o),
    });
    vec![ev]
}
