//! Interval producers: mean / comparison / proportion / quantile entry points
//! (properties C01..C06, C10, C11, C12, C16, C17).  Executes and records; no expectations.
use crate::accum::{err_json, Fl};
use crate::conf::mk_conf;
use crate::enc;
use serde_json::{json, Value};
use stats_ci::comparison::{Paired, Unpaired};
use stats_ci::error::CIError;
use stats_ci::mean::{Arithmetic, Geometric, Harmonic, MeanCI, StatisticsOps};
use stats_ci::{proportion, quantile, Confidence, Interval};
use std::panic::{catch_unwind, AssertUnwindSafe};

// ------------------------------------------------------------------------- data descriptors

/// xorshift64* : the shuffle used by data descriptors (seed comes from the case)
pub struct Rng(u64);
impl Rng {
    pub fn new(seed: u64) -> Self { Rng(seed.wrapping_mul(0x9E3779B97F4A7C15) | 1) }
    pub fn next(&mut self) -> u64 {
        let mut x = self.0;
        x ^= x >> 12; x ^= x << 25; x ^= x >> 27;
        self.0 = x;
        x.wrapping_mul(0x2545F4914F6CDD1D)
    }
    pub fn below(&mut self, n: u64) -> u64 { self.next() % n }
}

/// Expand {"rle":[[value,count],...],"order":...} into a vector of f64 values.
/// order: "asc" (as listed) | "desc" | "interleave" (round-robin over the blocks) | ["shuffle", seed]
/// optional "scale": {"p": k} multiplies every value by 2^k ; "neg": true negates ; "shift": value adds
pub fn expand(d: &Value) -> Vec<f64> {
    let mut blocks: Vec<(f64, usize)> = Vec::new();
    if let Some(n) = d.get("iota").and_then(|x| x.as_u64()) {
        // the distinct values 0 .. n-1
        for i in 0..n { blocks.push((i as f64, 1)); }
    } else {
        for b in d["rle"].as_array().expect("rle") {
            blocks.push((enc::dec_f64(&b[0]), b[1].as_u64().unwrap() as usize));
        }
    }
    let total: usize = blocks.iter().map(|b| b.1).sum();
    let mut v: Vec<f64> = Vec::with_capacity(total);
    let order = &d["order"];
    let ord = order.as_str().unwrap_or(if order.is_array() { "shuffle" } else { "asc" });
    match ord {
        "interleave" => {
            let mut left: Vec<usize> = blocks.iter().map(|b| b.1).collect();
            let mut remaining = total;
            while remaining > 0 {
                for (i, b) in blocks.iter().enumerate() {
                    if left[i] > 0 { v.push(b.0); left[i] -= 1; remaining -= 1; }
                }
            }
        }
        _ => {
            for b in &blocks { for _ in 0..b.1 { v.push(b.0); } }
            if ord == "desc" { v.reverse(); }
            if ord == "shuffle" {
                let mut rng = Rng::new(order[1].as_u64().unwrap_or(1));
                for i in (1..v.len()).rev() {
                    let j = rng.below(i as u64 + 1) as usize;
                    v.swap(i, j);
                }
            }
        }
    }
    if let Some(p) = d.get("scale").and_then(|s| s.get("p")).and_then(|p| p.as_i64()) {
        // exact scaling, also into and out of the subnormal range (powi underflows to 0 below 2^-1022)
        for x in v.iter_mut() { *x = enc::ldexp(*x, p); }
    }
    if d.get("neg").and_then(|b| b.as_bool()).unwrap_or(false) {
        for x in v.iter_mut() { *x = -*x; }
    }
    if let Some(s) = d.get("shift") {
        let s = enc::dec_f64(s);
        for x in v.iter_mut() { *x += s; }
    }
    v
}

fn cast<F: Fl>(v: &[f64]) -> Vec<F> { v.iter().map(|&x| F::from_f64_lossy(x)).collect() }

// ------------------------------------------------------------------------- outcomes

pub fn enc_iv<F: Fl>(iv: &Interval<F>) -> Value {
    match iv {
        Interval::TwoSided(a, b) => json!({"kind": "two", "lo": a.enc(), "hi": b.enc()}),
        Interval::UpperOneSided(a) => json!({"kind": "upper", "lo": a.enc()}),
        Interval::LowerOneSided(b) => json!({"kind": "lower", "hi": b.enc()}),
    }
}
pub fn enc_iv_usize(iv: &Interval<usize>) -> Value {
    match iv {
        Interval::TwoSided(a, b) => json!({"kind": "two", "lo": a, "hi": b}),
        Interval::UpperOneSided(a) => json!({"kind": "upper", "lo": a}),
        Interval::LowerOneSided(b) => json!({"kind": "lower", "hi": b}),
    }
}

pub fn outcome<F: Fl>(f: impl FnOnce() -> Result<Interval<F>, CIError>) -> Value {
    match catch_unwind(AssertUnwindSafe(f)) {
        Ok(Ok(iv)) => json!({"tag": "ok", "iv": enc_iv(&iv)}),
        Ok(Err(e)) => err_json(&e),
        Err(p) => json!({"tag": "panic", "msg": panic_msg(p)}),
    }
}

pub fn panic_msg(e: Box<dyn std::any::Any + Send>) -> String {
    if let Some(s) = e.downcast_ref::<&str>() { s.to_string() }
    else if let Some(s) = e.downcast_ref::<String>() { s.clone() }
    else { "?".to_string() }
}

fn stat<F: Fl>(f: impl FnOnce() -> F) -> Value {
    match catch_unwind(AssertUnwindSafe(f)) {
        Ok(v) => v.enc(),
        Err(_) => json!({"tag": "panic"}),
    }
}

// ------------------------------------------------------------------------- mean / comparison

fn mean_ci<F: Fl>(case: &Value) -> Value {
    let fl = case["fl"].as_str().unwrap();
    let style = case["style"].as_str().unwrap_or("ci");
    let conf_case = case["conf"].clone();
    let a: Vec<F> = cast(&expand(&case["data"]));
    let b: Vec<F> = if case.get("datab").is_some() { cast(&expand(&case["datab"])) } else { vec![] };
    let mut ev = case.clone();
    // echo the exact inputs (first/last few) and the confidence as the harness decoded them
    ev["n"] = json!(a.len());
    ev["nb"] = json!(b.len());
    let conf = match catch_unwind(|| mk_conf(&conf_case)) {
        Ok(c) => c,
        Err(_) => { ev["out"] = json!({"tag": "panic", "msg": "confidence"}); return ev; }
    };
    ev["confv"] = crate::conf::enc_conf(&conf);
    let mut stats = json!({});
    // C09: the sample delivered as many partial states merged with + / += in a fixed shape
    //   lfold1 / rfold1 : singleton states, total = total + chunk  /  total = chunk + total
    //   rfold1_assign   : chunk += total; total = chunk
    //   lfold7 / rfold7 : chunk sizes cycling 1..7
    //   tree            : chunks of sizes cycling 1..7 merged pairwise, level by level
    macro_rules! merged {
        ($T:ident) => {{
            let sizes: Vec<usize> = if style.ends_with('1') || style == "rfold1_assign" { vec![1] } else { (1..=7).collect() };
            let mut chunks: Vec<$T<F>> = Vec::new();
            let mut i = 0; let mut k = 0;
            while i < a.len() {
                let j = (i + sizes[k % sizes.len()]).min(a.len());
                chunks.push($T::<F>::from_iter(&a[i..j].to_vec())?);
                i = j; k += 1;
            }
            match style {
                "lfold1" | "lfold7" => { let mut t = $T::<F>::new(); for c in chunks { t = t + c; } t }
                "rfold1" | "rfold7" => { let mut t = $T::<F>::new(); for c in chunks { t = c + t; } t }
                "rfold1_assign" => { let mut t = $T::<F>::new(); for mut c in chunks { c += t; t = c; } t }
                _ => {
                    while chunks.len() > 1 {
                        let mut next = Vec::with_capacity(chunks.len() / 2 + 1);
                        let mut it = chunks.into_iter();
                        while let Some(x) = it.next() {
                            match it.next() { Some(y) => next.push(x + y), None => next.push(x) }
                        }
                        chunks = next;
                    }
                    chunks.pop().unwrap_or_else(|| $T::<F>::new())
                }
            }
        }};
    }
    macro_rules! single {
        ($T:ident, $has_var:expr) => {{
            // state-based styles keep the register to report its statistics
            let mut reg: Option<$T<F>> = None;
            let out = outcome(|| -> Result<Interval<F>, CIError> {
                match style {
                    "ci" => $T::<F>::ci(conf, &a),
                    // the one-shot call on a container whose by-reference iterator has an inexact size hint (0, Some(more))
                    "ci_sparse" => $T::<F>::ci(conf, &sparse_of(&a, 3)),
                    "ops" => <$T<F> as StatisticsOps<F>>::ci(conf, &a),
                    "meanci" => <$T<F> as MeanCI<F>>::ci(conf, &a),
                    "from_iter" => { let s = $T::<F>::from_iter(&a)?; reg = Some(s); s.ci_mean(conf) }
                    // everything through the StatisticsOps TRAIT (what code generic over `S: StatisticsOps<F>` reaches;
                    // method-call syntax on a concrete value prefers an inherent method of the same name)
                    "ops_mean" => {
                        let mut s = <$T<F> as Default>::default();
                        let r = <$T<F> as StatisticsOps<F>>::extend(&mut s, &a);
                        reg = Some(s); r?;
                        <$T<F> as StatisticsOps<F>>::ci_mean(&s, conf)
                    }
                    "ops_append" => {
                        let mut s = <$T<F> as StatisticsOps<F>>::from_iter(&Vec::<F>::new())?;
                        for x in &a { if let Err(e) = <$T<F> as StatisticsOps<F>>::append(&mut s, *x) { reg = Some(s); return Err(e); } }
                        reg = Some(s);
                        <$T<F> as StatisticsOps<F>>::ci_mean(&s, conf)
                    }
                    "extend" => { let mut s = $T::<F>::new(); let r = s.extend(&a); reg = Some(s); r?; s.ci_mean(conf) }
                    "append" => {
                        let mut s = $T::<F>::default();
                        for x in &a { if let Err(e) = StatisticsOps::append(&mut s, *x) { reg = Some(s); return Err(e); } }
                        reg = Some(s);
                        s.ci_mean(conf)
                    }
                    "lfold1" | "rfold1" | "rfold1_assign" | "lfold7" | "rfold7" | "tree" => {
                        let s = merged!($T); reg = Some(s); s.ci_mean(conf)
                    }
                    // the sample merged with itself `doublings` times (s = s + s), then delivered `extra` more times one by one:
                    // len * (2^doublings + extra) observations in O(doublings) steps - counts beyond 2^32
                    "doubling" => {
                        let mut s = $T::<F>::from_iter(&a)?;
                        for _ in 0..case["doublings"].as_u64().unwrap() { s = s + s; }
                        for _ in 0..case["extra"].as_u64().unwrap() { for x in &a { StatisticsOps::append(&mut s, *x)?; } }
                        reg = Some(s);
                        s.ci_mean(conf)
                    }
                    // many bulk calls with small batches on the same, already populated state
                    "extend4" => {
                        let mut s = $T::<F>::new();
                        for c in a.chunks(4) { if let Err(e) = s.extend(&c.to_vec()) { reg = Some(s); return Err(e); } }
                        reg = Some(s);
                        s.ci_mean(conf)
                    }
                    s => panic!("style {}", s),
                }
            });
            if reg.is_none() {
                // one-shot styles: statistics from an equivalent register (observation only)
                let mut s = $T::<F>::new();
                let _ = catch_unwind(AssertUnwindSafe(|| { let _ = s.extend(&a); }));
                reg = Some(s);
            }
            let s = reg.unwrap();
            stats["count_hex"] = json!(format!("{:x}", s.sample_count()));
            if style.starts_with("ops") {
                stats["count"] = json!(<$T<F> as StatisticsOps<F>>::sample_count(&s));
                stats["mean"] = stat(|| <$T<F> as StatisticsOps<F>>::sample_mean(&s));
                stats["sem"] = stat(|| <$T<F> as StatisticsOps<F>>::sample_sem(&s));
            } else {
                stats["count"] = json!(s.sample_count());
                stats["mean"] = stat(|| s.sample_mean());
                stats["sem"] = stat(|| s.sample_sem());
            }
            out
        }};
    }
    let out = match fl {
        "arith" => {
            let o = single!(Arithmetic, true);
            let mut s = Arithmetic::<F>::new();
            if style == "extend4" {
                for c in a.chunks(4) { let _ = s.extend(&c.to_vec()); }
            } else if matches!(style, "lfold1" | "rfold1" | "rfold1_assign" | "lfold7" | "rfold7" | "tree") {
                // variance / std of the merged register itself (the merge is deterministic)
                if let Ok(Ok(m)) = catch_unwind(AssertUnwindSafe(|| -> Result<Arithmetic<F>, CIError> { Ok(merged!(Arithmetic)) })) { s = m; }
            } else {
                let _ = s.extend(&a);
            }
            stats["var"] = stat(|| s.sample_variance());
            stats["std"] = stat(|| s.sample_std_dev());
            o
        }
        "geo" => single!(Geometric, false),
        "harm" => single!(Harmonic, false),
        "paired" => {
            let mut reg: Option<Paired<F>> = None;
            let out = outcome(|| -> Result<Interval<F>, CIError> {
                match style {
                    "ci" => Paired::<F>::ci(conf, &a, &b),
                    // containers with inexact size hints whose upper bounds DIFFER although the samples are equally long
                    "ci_sparse" => Paired::<F>::ci(conf, &sparse_of(&a, 1), &sparse_of(&b, 3)),
                    "extend" => { let mut s = Paired::default(); let r = s.extend(&a, &b); reg = Some(s.clone()); r?; s.ci_mean(conf) }
                    "extend_tuple" => {
                        let t: Vec<(F, F)> = a.iter().cloned().zip(b.iter().cloned()).collect();
                        let mut s = Paired::default(); s.extend_tuple(&t)?; reg = Some(s.clone()); s.ci_mean(conf)
                    }
                    "append_pair" => {
                        let mut s = Paired::default();
                        for (x, y) in a.iter().zip(b.iter()) { s.append_pair(*x, *y)?; }
                        reg = Some(s.clone());
                        s.ci_mean(conf)
                    }
                    s => panic!("style {}", s),
                }
            });
            if reg.is_none() {
                // one-shot style: statistics from an equivalent register (observation only)
                let mut s = Paired::default();
                if let Ok(Ok(())) = catch_unwind(AssertUnwindSafe(|| s.extend(&a, &b))) { reg = Some(s); }
            }
            if let Some(s) = reg {
                stats["count"] = json!(s.sample_count());
                stats["mean"] = stat(|| s.sample_mean());
                stats["sem"] = stat(|| s.sample_sem());
            }
            out
        }
        "unpaired" => {
            let mut reg: Option<Unpaired<F>> = None;
            let out = outcome(|| -> Result<Interval<F>, CIError> {
                match style {
                    "ci" => Unpaired::<F>::ci(conf, &a, &b),
                    "ci_sparse" => Unpaired::<F>::ci(conf, &sparse_of(&a, 2), &sparse_of(&b, 0)),
                    "extend" => { let mut s = Unpaired::default(); s.extend(&a, &b)?; reg = Some(s.clone()); s.ci_mean(conf) }
                    "from_iter" => { let s = Unpaired::from_iter(&a, &b)?; reg = Some(s.clone()); s.ci_mean(conf) }
                    "extend_a_b" => { let mut s = Unpaired::default(); s.extend_b(&b)?; s.extend_a(&a)?; reg = Some(s.clone()); s.ci_mean(conf) }
                    "append_a_b" => {
                        let mut s = Unpaired::default();
                        for x in &a { s.append_a(*x)?; }
                        for y in &b { s.append_b(*y)?; }
                        reg = Some(s.clone());
                        s.ci_mean(conf)
                    }
                    "append_pair" => {
                        // pairs for the common prefix, the rest one by one
                        let mut s = Unpaired::default();
                        let m = a.len().min(b.len());
                        for i in 0..m { s.append_pair(a[i], b[i])?; }
                        for x in &a[m..] { s.append_a(*x)?; }
                        for y in &b[m..] { s.append_b(*y)?; }
                        reg = Some(s.clone());
                        s.ci_mean(conf)
                    }
                    "new" => {
                        let s = Unpaired::new(Arithmetic::from_iter(&a)?, Arithmetic::from_iter(&b)?);
                        reg = Some(s.clone());
                        s.ci_mean(conf)
                    }
                    "mut" => {
                        let mut s = Unpaired::default();
                        s.stats_a_mut().extend(&a)?;
                        s.stats_b_mut().extend(&b)?;
                        reg = Some(s.clone());
                        s.ci_mean(conf)
                    }
                    s => panic!("style {}", s),
                }
            });
            if reg.is_none() {
                if let Ok(Ok(s)) = catch_unwind(AssertUnwindSafe(|| Unpaired::from_iter(&a, &b))) { reg = Some(s); }
            }
            if let Some(s) = reg {
                stats["count"] = json!(s.stats_a().sample_count());
                stats["countb"] = json!(s.stats_b().sample_count());
                stats["mean"] = stat(|| s.stats_a().sample_mean());
                stats["meanb"] = stat(|| s.stats_b().sample_mean());
                stats["var"] = stat(|| s.stats_a().sample_variance());
                stats["varb"] = stat(|| s.stats_b().sample_variance());
            }
            out
        }
        f => panic!("flavour {}", f),
    };
    ev["out"] = out;
    ev["stats"] = stats;
    // the one-shot call once more on a FRESH thread: the answer must not depend on what this thread computed before
    if style == "ci" && a.len() <= 200_000 {
        ev["out_fresh"] = fresh(&|| match fl {
            "arith" => outcome(|| Arithmetic::<F>::ci(conf, &a)),
            "geo" => outcome(|| Geometric::<F>::ci(conf, &a)),
            "harm" => outcome(|| Harmonic::<F>::ci(conf, &a)),
            "paired" => outcome(|| Paired::<F>::ci(conf, &a, &b)),
            _ => outcome(|| Unpaired::<F>::ci(conf, &a, &b)),
        });
    }
    if (fl == "geo" || fl == "harm") && case.get("aux").and_then(|b| b.as_bool()).unwrap_or(false)
        && a.iter().all(|x| x.is_finite() && *x > F::zero()) && !a.is_empty()
    {
        ev["auxv"] = aux_transformed::<F>(fl, &a, &conf);
        ev["aux_present"] = json!(true);
    } else if fl == "geo" || fl == "harm" {
        ev["aux_present"] = json!(false);
    }
    if fl == "paired" && a.len() == b.len() {
        // observation: the arithmetic-mean interval of the differences formed with the same float subtraction
        let diffs: Vec<F> = a.iter().zip(b.iter()).map(|(x, y)| *x - *y).collect();
        ev["diffci"] = outcome(|| Arithmetic::<F>::ci(conf, &diffs));
    }
    ev
}

/// Observations in the transformed space for geometric / harmonic means (C05): the crate's own
/// arithmetic results on ln(x) resp. 1/x, and samples (x, exp x) of the exponential - the
/// transcendental functions are uninterpreted in the specification.
fn aux_transformed<F: Fl>(fl: &str, a: &[F], conf: &Confidence) -> Value {
    let level = conf.level();
    let tr: Vec<F> = if fl == "geo" { a.iter().map(|x| x.ln()).collect() } else { a.iter().map(|x| F::one() / *x).collect() };
    let mut aux = json!({});
    let kinds = [("two", Confidence::new_two_sided(level)), ("upper", Confidence::new_upper(level)), ("lower", Confidence::new_lower(level))];
    for (nm, c) in kinds.iter() {
        let o = outcome(|| Arithmetic::<F>::ci(*c, &tr));
        if fl == "geo" {
            // samples of exp at the bounds actually returned
            if let Ok(Ok(iv)) = catch_unwind(AssertUnwindSafe(|| Arithmetic::<F>::ci(*c, &tr))) {
                let mut e = json!({});
                if let Some(x) = iv.left() { e["lo"] = x.exp().enc(); }
                if let Some(x) = iv.right() { e["hi"] = x.exp().enc(); }
                aux[format!("exp_{}", nm)] = e;
            }
        }
        aux[format!("arith_{}", nm)] = o;
    }
    if let Ok(s) = Arithmetic::<F>::from_iter(&tr) {
        aux["tmean"] = stat(|| s.sample_mean());
        aux["tsem"] = stat(|| s.sample_sem());
        if fl == "geo" { aux["exp_tmean"] = stat(|| s.sample_mean().exp()); }
    }
    // (always present: a state that cannot be built is reported as such)
    let na = json!({"tag": "unavailable"});
    aux["amean"] = match Arithmetic::<F>::from_iter(&a.to_vec()) { Ok(s) => stat(|| s.sample_mean()), Err(_) => na.clone() };
    aux["gmean"] = match Geometric::<F>::from_iter(&a.to_vec()) { Ok(s) => stat(|| s.sample_mean()), Err(_) => na.clone() };
    aux["hmean"] = match Harmonic::<F>::from_iter(&a.to_vec()) { Ok(s) => stat(|| s.sample_mean()), Err(_) => na.clone() };
    aux
}

// ------------------------------------------------------------------------- proportion

fn ok_f64(r: Result<Interval<f64>, CIError>) -> Value {
    match r { Ok(iv) => json!({"tag": "ok", "iv": enc_iv(&iv)}), Err(e) => err_json(&e) }
}
fn guard(f: impl FnOnce() -> Value) -> Value {
    match catch_unwind(AssertUnwindSafe(f)) { Ok(v) => v, Err(p) => json!({"tag": "panic", "msg": panic_msg(p)}) }
}

/// all proportion front-ends for one (n, k, conf)
fn prop_ci(case: &Value) -> Value {
    // counts beyond the 32-bit integers of the validator are written a * 2^p
    let big = |v: &Value| (v["a"].as_u64().unwrap() as usize) << v["p"].as_u64().unwrap();
    let n = if case.get("nbig").is_some() { big(&case["nbig"]) } else { case["n"].as_u64().unwrap() as usize };
    let n = n + case.get("nplus").and_then(|x| x.as_u64()).unwrap_or(0) as usize;      // n = a * 2^p + r
    let k = if case.get("kbig").is_some() { big(&case["kbig"]) } else { case["k"].as_u64().unwrap() as usize };
    // "kminus": all but that many trials succeeded
    let k = if let Some(m) = case.get("kminus").and_then(|x| x.as_u64()) { n - m as usize } else { k };
    let mut ev = case.clone();
    let conf = match catch_unwind(|| mk_conf(&case["conf"])) {
        Ok(c) => c,
        Err(_) => { ev["out"] = json!({"tag": "panic", "msg": "confidence"}); return ev; }
    };
    ev["confv"] = crate::conf::enc_conf(&conf);
    let fe = case["fe"].as_str().unwrap_or("ci");
    let call = || guard(|| match fe {
        "ci" => ok_f64(proportion::ci(conf, n, k)),
        "ci_wilson" => ok_f64(proportion::ci_wilson(conf, n, k)),
        "ci_z_normal" => ok_f64(proportion::ci_z_normal(conf, n, k)),
        "ci_wilson_ratio" => {
            // the ratio a user would pass: k / n in f64
            let ratio = k as f64 / n as f64;
            ok_f64(proportion::ci_wilson_ratio(conf, n, ratio))
        }
        "ci_wilson_ratio_raw" => ok_f64(proportion::ci_wilson_ratio(conf, n, enc::dec_f64(&case["ratio"]))),
        "ci_true" => {
            let data: Vec<bool> = (0..n).map(|i| i < k).collect();
            ok_f64(proportion::ci_true(conf, &data))
        }
        "ci_if" => {
            // successes are the even numbers below 2k, failures odd numbers: predicate = is even
            let data: Vec<u32> = (0..n).map(|i| if i < k { 2 * i as u32 } else { 2 * i as u32 + 1 }).collect();
            ok_f64(proportion::ci_if(conf, &data, |x| x % 2 == 0))
        }
        "stats_new" => ok_f64(proportion::Stats::new(n, k).ci(conf)),
        "stats_from_iter" => ok_f64(proportion::Stats::from_iter((0..n).map(|i| i < k)).ci(conf)),
        // collected from an iterator whose size hint is only an upper bound (twice the population)
        "stats_collect_filtered" => ok_f64((0..2 * n).filter(|i| i % 2 == 0).map(|i| i / 2 < k).collect::<proportion::Stats>().ci(conf)),
        "stats_extend" => {
            // two consecutive bulk calls on the same state
            let data: Vec<bool> = (0..n).map(|i| (i * 7 + 3) % n.max(1) < k).collect();
            let data: Vec<bool> = if data.iter().filter(|&&b| b).count() == k { data } else { (0..n).map(|i| i < k).collect() };
            let cut = n / 3;
            let mut s = proportion::Stats::default();
            s.extend(&data[..cut].to_vec());
            s.extend(&data[cut..].to_vec());
            ok_f64(s.ci(conf))
        }
        "stats_mixed" => {
            // a history mixing every way of feeding a running Stats: (n, k) in total
            let k1 = k / 3; let f1 = (n - k) / 3;                       // first part through new()
            let k2 = (k - k1) / 2; let f2 = (n - k - f1) / 2;           // second part through extend
            let k3 = k - k1 - k2; let f3 = n - k - f1 - f2;             // rest through extend_if and single adds
            let mut s = proportion::Stats::new(k1 + f1, k1);
            let chunk: Vec<bool> = (0..k2 + f2).map(|i| i >= f2).collect();
            s.extend(&chunk);
            let k3a = k3 / 2; let f3a = f3 / 2;
            let vals: Vec<i32> = (0..(k3a + f3a) as i32).map(|i| if (i as usize) < k3a { -1 - i } else { i }).collect();
            s.extend_if(&vals, |&x| x < 0);
            for _ in 0..(k3 - k3a) { s.add_success(); }
            for _ in 0..(f3 - f3a) { s.add_failure(); }
            ok_f64(s.ci(conf))
        }
        "stats_extend_if" => {
            let data: Vec<i64> = (0..n as i64).map(|i| if (i as usize) < k { -i - 1 } else { i }).collect();
            let mut s = proportion::Stats::default();
            s.extend_if(&data, |&x| x < 0);
            ok_f64(s.ci(conf))
        }
        "stats_add" => {
            let mut s = proportion::Stats::default();
            for i in 0..n { if i < k { s.add_success(); } else { s.add_failure(); } }
            ok_f64(s.ci(conf))
        }
        f => panic!("front-end {}", f),
    });
    ev["out"] = call();
    // the same request on a FRESH thread (no per-thread state left by earlier calls): the answer must not depend on history
    if n <= 100_000 { ev["out_fresh"] = fresh(&call); }
    ev
}

/// run a request on a newly spawned thread
fn fresh(f: &(dyn Fn() -> Value + Sync)) -> Value {
    std::thread::scope(|s| s.spawn(|| f()).join().unwrap_or_else(|_| json!({"tag": "panic", "msg": "fresh thread"})))
}

fn prop_sig(case: &Value) -> Value {
    let n = case["n"].as_u64().unwrap() as usize;
    let k = case["k"].as_u64().unwrap() as usize;
    let mut ev = case.clone();
    ev["out"] = guard(|| json!({"tag": "ok", "res": proportion::is_significant(n, k)}));
    ev["out_stats"] = guard(|| {
        if k <= n { json!({"tag": "ok", "res": proportion::Stats::new(n, k).is_significant()}) }
        else { json!({"tag": "skipped"}) }
    });
    ev
}

fn prop_stats_new(case: &Value) -> Value {
    let n = case["n"].as_u64().unwrap() as usize;
    let k = case["k"].as_u64().unwrap() as usize;
    let mut ev = case.clone();
    ev["out"] = guard(|| { let s = proportion::Stats::new(n, k); json!({"tag": "ok", "pop": s.population(), "succ": s.successes()}) });
    ev
}

// ------------------------------------------------------------------------- quantile

fn ok_usize(r: Result<Interval<usize>, CIError>) -> Value {
    match r { Ok(iv) => json!({"tag": "ok", "iv": enc_iv_usize(&iv)}), Err(e) => err_json(&e) }
}

/// rank-level entry points for one (n, q, conf)
fn quant_ranks(case: &Value) -> Value {
    let n = case["n"].as_u64().unwrap() as usize;
    let q = enc::dec_f64(&case["q"]);
    let mut ev = case.clone();
    let conf = match catch_unwind(|| mk_conf(&case["conf"])) {
        Ok(c) => c,
        Err(_) => { ev["out"] = json!({"tag": "panic", "msg": "confidence"}); return ev; }
    };
    ev["confv"] = crate::conf::enc_conf(&conf);
    ev["qv"] = enc::enc_f64(q);
    // the f64 product q*n and its rounding, as the element type computes them (observation)
    let qn = q * n as f64;
    ev["qn"] = enc::enc_f64(qn);
    // observation for the judge: the crate's own Wilson intervals of the two counts adjacent to q*n
    if qn.is_finite() && qn >= 0.0 && qn < 1e9 {
        let kf = qn.floor() as usize;
        ev["wil"] = json!([
            {"k": kf, "out": guard(|| ok_f64(proportion::ci_wilson(conf, n, kf)))},
            {"k": kf + 1, "out": guard(|| ok_f64(proportion::ci_wilson(conf, n, kf + 1)))},
        ]);
    } else {
        ev["wil"] = json!([]);
    }
    ev["out"] = guard(|| ok_usize(quantile::ci_indices(conf, n, q)));
    ev["out_stats"] = guard(|| ok_usize(quantile::Stats::new(n).ci(conf, q)));
    ev["out_fresh"] = fresh(&|| guard(|| ok_usize(quantile::ci_indices(conf, n, q))));
    ev
}

/// limbs (base 2^15, least significant first) of an index beyond the 32-bit integers of the validator
fn limbs(mut x: u128) -> Value {
    let mut v = Vec::new();
    while x > 0 { v.push((x & 0x7fff) as u64); x >>= 15; }
    json!(v)
}
fn ok_usize_big(r: Result<Interval<usize>, CIError>) -> Value {
    match r {
        Ok(Interval::TwoSided(a, b)) => json!({"tag": "ok", "iv": {"kind": "two", "lo": limbs(a as u128), "hi": limbs(b as u128)}}),
        Ok(Interval::UpperOneSided(a)) => json!({"tag": "ok", "iv": {"kind": "upper", "lo": limbs(a as u128)}}),
        Ok(Interval::LowerOneSided(b)) => json!({"tag": "ok", "iv": {"kind": "lower", "hi": limbs(b as u128)}}),
        Err(e) => err_json(&e),
    }
}

/// rank-level entry points for a population a * 2^p far beyond 2^32 (no data can be that long: index-only paths)
fn quant_big(case: &Value) -> Value {
    let a = case["nbig"]["a"].as_u64().unwrap() as u128;
    let p = case["nbig"]["p"].as_u64().unwrap() as u32;
    let n = (a << p) as usize;
    let q = enc::dec_f64(&case["q"]);
    let mut ev = case.clone();
    let conf = match catch_unwind(|| mk_conf(&case["conf"])) {
        Ok(c) => c,
        Err(_) => { ev["out"] = json!({"tag": "panic", "msg": "confidence"}); return ev; }
    };
    ev["confv"] = crate::conf::enc_conf(&conf);
    ev["nlimbs"] = limbs(n as u128);
    ev["out"] = guard(|| ok_usize_big(quantile::ci_indices(conf, n, q)));
    ev["out_stats"] = guard(|| ok_usize_big(quantile::Stats::new(n).ci(conf, q)));
    // the same population reached by merging two running states
    ev["out_merged"] = guard(|| ok_usize_big((quantile::Stats::new(n / 2) + quantile::Stats::new(n - n / 2)).ci(conf, q)));
    ev
}

fn quant_index(case: &Value) -> Value {
    let n = case["n"].as_u64().unwrap() as usize;
    let q = enc::dec_f64(&case["q"]);
    let mut ev = case.clone();
    ev["qv"] = enc::enc_f64(q);
    ev["out"] = guard(|| match quantile::Stats::new(n).index(q) {
        Ok(i) => json!({"tag": "ok", "res": i}),
        Err(e) => err_json(&e),
    });
    ev
}

fn enc_iv_pos<T: PartialOrd + Clone>(r: Result<Interval<T>, CIError>, pos: &dyn Fn(&T) -> i64) -> Value {
    match r {
        Ok(Interval::TwoSided(a, b)) => json!({"tag": "ok", "iv": {"kind": "two", "lo": pos(&a), "hi": pos(&b)}}),
        Ok(Interval::UpperOneSided(a)) => json!({"tag": "ok", "iv": {"kind": "upper", "lo": pos(&a)}}),
        Ok(Interval::LowerOneSided(b)) => json!({"tag": "ok", "iv": {"kind": "lower", "hi": pos(&b)}}),
        Err(e) => err_json(&e),
    }
}

/// a container with holes: iterating a reference yields the present elements, size hint (0, Some(len))
struct Sparse<T>(Vec<Option<T>>);
/// the sample `a` with a hole after every `every`-th element (`every` = 0: no holes, the hint is still inexact)
fn sparse_of<T: Clone>(a: &[T], every: usize) -> Sparse<T> {
    let mut v = Vec::with_capacity(a.len() * 2);
    for (i, x) in a.iter().enumerate() {
        v.push(Some(x.clone()));
        if every > 0 && (i + 1) % every == 0 { v.push(None); }
    }
    Sparse(v)
}
impl<'a, T> IntoIterator for &'a Sparse<T> {
    type Item = &'a T;
    type IntoIter = std::iter::Flatten<std::slice::Iter<'a, Option<T>>>;
    fn into_iter(self) -> Self::IntoIter { self.0.iter().flatten() }
}

/// data-level entry points.  "data" is a sequence of small integer keys (ties allowed) in the
/// order to be supplied; elements are key-embedded into i32 / f64 / char / &str; results are
/// mapped back to keys.
fn quant_data(case: &Value) -> Value {
    let keys: Vec<i64> = if case["data"].is_array() {
        case["data"].as_array().unwrap().iter().map(|x| x.as_i64().unwrap()).collect()
    } else {
        expand(&case["data"]).iter().map(|&x| x as i64).collect()
    };
    let q = enc::dec_f64(&case["q"]);
    let ty = case["ty"].as_str().unwrap_or("i32");
    let entry = case["entry"].as_str().unwrap_or("ci");
    let mut ev = case.clone();
    let conf = match catch_unwind(|| mk_conf(&case["conf"])) {
        Ok(c) => c,
        Err(_) => { ev["out"] = json!({"tag": "panic", "msg": "confidence"}); return ev; }
    };
    ev["confv"] = crate::conf::enc_conf(&conf);
    ev["qv"] = enc::enc_f64(q);
    ev["n"] = json!(keys.len());
    // observation for the judge: the rank interval of the same (n, q, confidence)
    ev["ranks"] = guard(|| ok_usize(quantile::ci_indices(conf, keys.len(), q)));
    macro_rules! run_ty {
        ($t:ty, $emb:expr, $back:expr) => {{
            let data: Vec<$t> = keys.iter().map($emb).collect();
            guard(|| {
                let r: Result<Interval<$t>, CIError> = match entry {
                    "ci" => quantile::ci(conf, &data, q),
                    "sorted" => {
                        let mut s = data.clone();
                        s.sort_by(|a, b| a.partial_cmp(b).unwrap());
                        quantile::ci_sorted_unchecked(conf, &s, q)
                    }
                    // the caller's promise broken: the data as given (not sorted)
                    "sorted_raw" => quantile::ci_sorted_unchecked(conf, &data, q),
                    // a container whose by-reference iterator has no exact size hint (lower bound 0)
                    "ci_sparse" => {
                        let sp = Sparse(data.iter().flat_map(|x| [None, Some(x.clone())]).collect());
                        quantile::ci(conf, &sp, q)
                    }
                    "max_n" => match data.len() {
                        // CAP = n exactly (const generics: a few fixed capacities)
                        4 => quantile::ci_max_size::<$t, _, 4>(conf, &data, q),
                        5 => quantile::ci_max_size::<$t, _, 5>(conf, &data, q),
                        6 => quantile::ci_max_size::<$t, _, 6>(conf, &data, q),
                        7 => quantile::ci_max_size::<$t, _, 7>(conf, &data, q),
                        _ => quantile::ci_max_size::<$t, _, 4096>(conf, &data, q),
                    },
                    "max_1024" => quantile::ci_max_size::<$t, _, { quantile::DATA_CAP }>(conf, &data, q),
                    "max_small" => quantile::ci_max_size::<$t, _, 3>(conf, &data, q),
                    e => panic!("entry {}", e),
                };
                enc_iv_pos(r, &$back)
            })
        }};
    }
    ev["out"] = match ty {
        "i32" => run_ty!(i32, |&k| (k * 10 - 5) as i32, |x: &i32| ((*x + 5) / 10) as i64),
        "f64" => run_ty!(f64, |&k| k as f64 * 0.5 - 1.0, |x: &f64| ((*x + 1.0) * 2.0) as i64),
        "char" => run_ty!(char, |&k| (b'A' as i64 + k) as u8 as char, |x: &char| *x as i64 - b'A' as i64),
        "str" => {
            let owned: Vec<String> = keys.iter().map(|k| format!("k{:04}", k)).collect();
            let data: Vec<&str> = owned.iter().map(|s| s.as_str()).collect();
            guard(|| {
                let r: Result<Interval<&str>, CIError> = match entry {
                    "ci" => quantile::ci(conf, &data, q),
                    "sorted" => { let mut s = data.clone(); s.sort(); quantile::ci_sorted_unchecked(conf, &s, q) }
                    _ => quantile::ci_max_size::<&str, _, { quantile::DATA_CAP }>(conf, &data, q),
                };
                enc_iv_pos(r, &|x: &&str| x[1..].parse::<i64>().unwrap())
            })
        }
        "f64nan" => {
            // float data with a NaN at position `nanpos`: documented panic (incomparable elements)
            let mut data: Vec<f64> = keys.iter().map(|&k| k as f64).collect();
            let p = case["nanpos"].as_u64().unwrap_or(0) as usize;
            if p < data.len() { data[p] = f64::NAN; }
            // a NaN bound in an Ok result is reported as the key -999
            let back = |x: &f64| if x.is_nan() { -999 } else { *x as i64 };
            guard(|| {
                let r = match entry {
                    "ci" => quantile::ci(conf, &data, q),
                    "max_n" => match data.len() {
                        4 => quantile::ci_max_size::<f64, _, 4>(conf, &data, q),
                        7 => quantile::ci_max_size::<f64, _, 7>(conf, &data, q),
                        _ => quantile::ci_max_size::<f64, _, 4096>(conf, &data, q),
                    },
                    _ => quantile::ci_max_size::<f64, _, { quantile::DATA_CAP }>(conf, &data, q),
                };
                enc_iv_pos(r, &back)
            })
        }
        t => panic!("type {}", t),
    };
    ev
}

pub fn run(case: &Value) -> Vec<Value> {
    let ev = match case["op"].as_str().unwrap() {
        "mean.ci" => if case["ty"] == "f32" { mean_ci::<f32>(case) } else { mean_ci::<f64>(case) },
        "prop.ci" | "prop.big" | "prop.xlev" => prop_ci(case),
        "prop.sig" => prop_sig(case),
        "prop.stats_new" => prop_stats_new(case),
        "quant.ranks" => quant_ranks(case),
        "quant.big" => quant_big(case),
        "quant.index" => quant_index(case),
        "quant.data" => quant_data(case),
        _ => json!({"op": "harness.unknown", "case": case}),
    };
    vec![ev]
}

#[allow(dead_code)]
fn _unused(_c: Confidence) {}
