//! utils::KahanSum as a register machine (property C08).
use crate::accum::Fl;
use crate::enc;
use serde_json::{json, Value};
use stats_ci::utils::KahanSum;

fn run_program<F: Fl + std::fmt::Display>(case: &Value) -> Vec<Value> {
    let nreg = case["nreg"].as_u64().unwrap() as usize;
    let mut regs: Vec<KahanSum<F>> = vec![KahanSum::default(); nreg];
    let mut evs = Vec::new();
    let f = |v: &Value| -> F { F::from_f64_lossy(enc::dec_f64(v)) };
    for (k, act) in case["steps"].as_array().unwrap().iter().enumerate() {
        let a = act["a"].as_str().unwrap();
        let r = act["r"].as_u64().unwrap() as usize - 1;
        let q = act.get("q").and_then(|x| x.as_u64()).map(|x| x as usize - 1).unwrap_or(0);
        let t = act.get("t").and_then(|x| x.as_u64()).map(|x| x as usize - 1).unwrap_or(0);
        match a {
            "reset" => regs[r] = KahanSum::default(),
            "from" => regs[r] = KahanSum::from(f(&act["x"])),
            "new" => regs[r] = KahanSum::new(f(&act["x"])),
            "add" => regs[r] += f(&act["x"]),                       // AddAssign<T>
            "add_by_plus" => regs[r] = regs[r] + f(&act["x"]),      // Add<T>
            "add_block" => {
                let x = f(&act["x"]);
                for _ in 0..act["rep"].as_u64().unwrap() { regs[r] += x; }
            }
            "add_cycle" => {
                let xs: Vec<F> = act["xs"].as_array().unwrap().iter().map(|v| f(v)).collect();
                for _ in 0..act["rep"].as_u64().unwrap() { for x in &xs { regs[r] += *x; } }
            }
            // folds of `rep` freshly filled partial registers (each the sum of xs) into register r:
            // lfold: acc += part (the accumulator is the left operand)
            // rfold: part += acc; acc = part (the large accumulated register is the RIGHT operand)
            "lfold" | "rfold" | "lfold_plus" | "rfold_plus" => {
                let xs: Vec<F> = act["xs"].as_array().unwrap().iter().map(|v| f(v)).collect();
                for _ in 0..act["rep"].as_u64().unwrap() {
                    let mut part = KahanSum::<F>::default();
                    for x in &xs { part += *x; }
                    match a {
                        "lfold" => regs[r] += part,                              // AddAssign<Self>
                        "rfold" => { part += regs[r]; regs[r] = part; }
                        "lfold_plus" => regs[r] = regs[r] + part,                // Add<Self>, by value
                        _ => regs[r] = part + regs[r],
                    }
                }
            }
            "merge" => { let o = regs[q]; regs[r] += o; }            // AddAssign<Self>
            "merge_by_plus" => regs[t] = regs[r] + regs[q],         // Add<Self>
            other => panic!("kahan action {}", other),
        }
        let vals: Vec<Value> = regs.iter().map(|x| x.value().enc()).collect();
        let disp: Vec<Value> = regs.iter().map(|x| json!(format!("{}", x))).collect();
        let vdisp: Vec<Value> = regs.iter().map(|x| json!(format!("{}", x.value()))).collect();
        let eqs: Vec<Value> = regs.iter().map(|x| json!(*x == KahanSum::new(x.value()) && *x == *x)).collect();
        evs.push(json!({"op": "kahan.step", "ty": F::tyname(), "k": k + 1, "first": k == 0, "nreg": nreg,
                        "act": act, "vals": vals, "disp": disp, "vdisp": vdisp, "eqs": eqs}));
    }
    evs
}

pub fn run(case: &Value) -> Vec<Value> {
    if case["ty"] == "f32" { run_program::<f32>(case) } else { run_program::<f64>(case) }
}
