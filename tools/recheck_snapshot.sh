#!/bin/sh
# background use (vp run --with-repo -- tools/recheck_snapshot.sh): re-run the quick checks against every kept seeded change
# on a snapshot of the repository; prints only the changes that are NOT rejected
export VERIF_REPO=${VP_RUN_REPO:-/repo}
./setup.sh >/dev/null 2>&1
nice -n 10 python3 tools/recheck_seeded.py "$@" 2>&1 | grep -v "VIOLATION'}$"
echo "recheck finished"
