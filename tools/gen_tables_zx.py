#!/usr/bin/env python3-vt
"""Reference rows for the standard-normal quantile at EXTREME confidence levels (far outside the 19-level grid).

For each decimal level L the crate sees the f64 nearest to it, Lf; the target probability is p = (1+Lf)/2 (two-sided) or
p = Lf (one-sided), exactly (fractions).  An implementation forms p in f64 arithmetic, so it may be off by up to one ulp of 1.0:
the row's enclosure is [z(p - 2^-52), z(p + 2^-52)] (for p < 2^-20: p (1 -/+ 2^-50)) widened by a relative 2^-40 for the
inverse distribution function itself.  Output: spec/tables/zqx.ndjson, rows in the order kind (two, one), level.
Same limb format as gen_tables.py (magnitudes scaled by 2^110)."""
import json, os, struct, sys
from fractions import Fraction
sys.path.insert(0, os.path.dirname(os.path.abspath(__file__)))
from gen_tables import limbs, OUT, SCALE
from mpmath import mp, mpf, erfinv, sqrt, floor, ceil
mp.dps = 90

XLEVELS = ["0.999999", "0.9999999", "0.99999999", "0.999999999", "0.99999999999", "0.0000001", "0.000000001"]

def zq(p):      # p an mpf in (0,1)
    return sqrt(2) * erfinv(2 * p - 1)

def main():
    with open(os.path.join(OUT, "zqx.ndjson"), "w") as f:
        for ki, kind in enumerate(("two", "one")):
            for xi, L in enumerate(XLEVELS):
                Lf = Fraction(float(L))
                bits = struct.unpack(">Q", struct.pack(">d", float(L)))[0]
                p = (1 + Lf) / 2 if kind == "two" else Lf
                pm = mpf(p.numerator) / mpf(p.denominator)
                if p < Fraction(1, 2 ** 20):
                    d = pm * mpf(2) ** -50
                else:
                    d = mpf(2) ** -52
                a, b = zq(pm - d), zq(pm + d)
                usable = not (kind == "two" and Lf < Fraction(1, 2))      # next to the median: not tabulated
                sg = 1 if a > 0 and b > 0 else (-1 if a < 0 and b < 0 else 0)
                lo, hi = sorted((abs(a), abs(b)))
                lo = lo * (1 - mpf(2) ** -40); hi = hi * (1 + mpf(2) ** -40)
                ilo = max(int(floor(lo * mpf(2) ** SCALE)) - 1, 0); ihi = int(ceil(hi * mpf(2) ** SCALE)) + 1
                f.write(json.dumps({"ki": ki + 1, "xi": xi + 1, "dec": L, "bits": "%016x" % bits, "usable": usable and sg != 0,
                                    "sg": sg, "lo": limbs(ilo), "hi": limbs(ihi)}) + "\n")
                print(kind, L, float(a), float(b), usable)
main()
