#!/usr/bin/env python3
"""quick TLC runner for development: tools/tlcq.py Module [cfg] [workers] KEY=VAL..."""
import sys, os
sys.path.insert(0, os.path.join(os.path.dirname(os.path.abspath(__file__)), "..", "lib"))
import driver
mod = sys.argv[1]
rest = sys.argv[2:]
env = {}
cfg = mod + ".cfg"; workers = 1
for a in rest:
    if "=" in a:
        k, v = a.split("=", 1); env[k] = v
    elif a.endswith(".cfg"): cfg = a
    else: workers = int(a)
try:
    r = driver.run_tlc(mod, cfg, env=env, workers=workers)
    ks = {}
    for k, v in r.lines: ks[k] = ks.get(k, 0) + 1
    print("payload:", ks)
    for k, v in r.lines[:int(os.environ.get("SHOW", "0"))]: print(k, str(v)[:400])
except driver.ToolError as e:
    msg = str(e)
    i = msg.find("Error:")
    j = msg.find("Semantic errors")
    print(msg[min(x for x in (i, j, 0) if x >= 0):][:int(os.environ.get("ERRLEN", "1800"))])
