#!/bin/sh
# background use (vp run --with-repo -- tools/run_benign.sh [names..]): run every quick check against each BENIGN change
# (benign/<name>/patch.diff: refactorings under which every property still holds) on a snapshot of the repository.
# Any line "== Cxx rc=1" (or rc=2) below is a false alarm (or a tool error) of the machinery.
export VERIF_REPO=${VP_RUN_REPO:-/repo}
./setup.sh >/dev/null 2>&1
names="$@"; [ -z "$names" ] && names=$(ls benign | grep -v README)
for b in $names; do
  echo "#### $b"
  nice -n 10 tools/try_patch.sh "$(pwd)/benign/$b/patch.diff" C01 C02 C03 C04 C05 C06 C07 C08 C09 C10 C11 C12 C13 C14 C15 C16 C17 C18 C19 C20 2>&1 | grep -v "^KNOWN-FINDING"
done
echo "benign finished"
