#!/usr/bin/env python3
"""Re-run the quick checks against every kept seeded change (/verif/seeded/*/patch.diff) and rewrite
the `checks_run` / `caught_by` fields of its meta.json and seeded/README.md.
usage: tools/recheck_seeded.py [name-prefix ...]      (extra checks per seed: meta["also_run"])"""
import json, os, subprocess, sys, glob
VROOT = os.path.dirname(os.path.dirname(os.path.abspath(__file__)))
ROOT = os.environ.get("SEEDED_OUT") or os.path.join(VROOT, "seeded")
def main():
    sel = sys.argv[1:]
    rows = []
    for d in sorted(glob.glob(os.path.join(ROOT, "*"))):
        if not os.path.isdir(d): continue
        name = os.path.basename(d)
        mp = os.path.join(d, "meta.json")
        meta = json.load(open(mp)) if os.path.exists(mp) else {}
        if not sel or any(name.startswith(s) for s in sel):
            prop = meta.get("property", name.split("-")[0])
            checks = [prop] + [c for c in meta.get("also_run", []) if c != prop]
            p = subprocess.run([os.path.join(VROOT, "tools", "try_patch.sh"), os.path.join(d, "patch.diff")] + checks,
                               cwd=VROOT, stdout=subprocess.PIPE, stderr=subprocess.STDOUT, text=True)
            res = {}
            for line in p.stdout.splitlines():
                if line.startswith("== "):
                    c = line.split()[1]; rc = int(line.split("rc=")[1])
                    res[c] = "VIOLATION" if rc == 1 else ("pass" if rc == 0 else "tool-error")
            if "does not apply" in p.stdout:
                res = {"patch": "does not apply to the current HEAD"}
            meta["checks_run"] = res
            meta["caught_by"] = [c for c, v in res.items() if v == "VIOLATION"]
            json.dump(meta, open(mp, "w"), indent=1)
            print(name, res, flush=True)
        rows.append((name, meta.get("property", ""), meta.get("needs_to_manifest", meta.get("what_it_needs", "")),
                     meta.get("checks_run", {}), meta.get("caught_by", [])))
    with open(os.path.join(ROOT, "README.md"), "w") as f:
        f.write("# Seeded changes\n\nEach directory holds a change to xdefago/stats-ci written by an independent sub-agent from the text of one "
                "property only (`patch.diff`), its demonstration (fails with the change, passes without) and `meta.json`. All were confirmed "
                "in a scratch worktree: the change compiles, the 55 pinned tests pass with it, the demonstration fails with it and passes "
                "without it. `tools/recheck_seeded.py` applies each patch to /repo, runs the quick check of its property and restores /repo.\n\n"
                "| seeded change | property | needs, to manifest | quick checks run | rejected by |\n|---|---|---|---|---|\n")
        for name, prop, needs, res, caught in rows:
            needs = str(needs).replace("|", "/").replace("\n", " ")[:260]
            f.write(f"| {name} | {prop} | {needs} | {', '.join(f'{k}: {v}' for k, v in res.items())} | {', '.join(caught) or '-'} |\n")
main()
