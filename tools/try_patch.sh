#!/bin/bash
# usage: tools/try_patch.sh <patch.diff> <PROP> [<PROP> ...]
# applies a patch to /repo's working tree, runs the quick checks, and ALWAYS restores the tree.
set -u
patch="$1"; shift
cd /repo || exit 2
if ! git diff --quiet; then echo "repo working tree not clean"; exit 2; fi
restore() { git -C /repo checkout -- . ; }
trap restore EXIT
git apply "$patch" || { echo "patch does not apply"; exit 2; }
cd /verif
for p in "$@"; do
  out=$(./check "$p" --tier "${TIER:-quick}" 2>/dev/null)
  rc=$?
  echo "== $p rc=$rc"
  echo "$out" | grep -E '^(VIOLATION|KNOWN-FINDING|TOOL-ERROR)' | cut -c1-300 | head -5
done
