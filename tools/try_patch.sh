#!/bin/bash
# usage: tools/try_patch.sh <patch.diff> <PROP> [<PROP> ...]
# applies a patch to the repository's working tree (VERIF_REPO, default /repo), runs the quick checks
# of this verif tree, and ALWAYS restores the repository.  Evidence of these runs goes to work/evidence-mutant.
set -u
patch="$1"; shift
ROOT=$(cd "$(dirname "$0")/.." && pwd)
REPO=${VERIF_REPO:-/repo}
export VERIF_EVIDENCE_DIR="$ROOT/work/evidence-mutant"
cd "$REPO" || exit 2
if ! git diff --quiet; then
  # a snapshot repository may have been left patched by a killed run: restore it; the real /repo is never touched unasked
  if [ "$REPO" != "/repo" ]; then git checkout -- . ; else echo "repo working tree not clean"; exit 2; fi
fi
restore() { git -C "$REPO" checkout -- . ; }
trap restore EXIT
git apply "$patch" || { echo "patch does not apply"; exit 2; }
cd "$ROOT"
for p in "$@"; do
  out=$(./check "$p" --tier "${TIER:-quick}" 2>/dev/null)
  rc=$?
  echo "== $p rc=$rc"
  echo "$out" | grep -E '^(VIOLATION|KNOWN-FINDING|TOOL-ERROR)' | cut -c1-300 | head -5
done
