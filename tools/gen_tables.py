#!/usr/bin/env python3-vt
"""Generate the reference quantile tables of spec/RefTables.tla (run once; output committed).

Student-t and normal quantiles at 50 significant digits (mpmath), written as dyadic
enclosures [lo, hi] * 2^-SCALE with limbs base 2^15, so that TLC can read them exactly
(its JSON reader has no floats).  Row order is index arithmetic for RefTables.tla:
    t:  for nu index (1..NNU), kind index (1 = two-sided, 2 = one-sided), level index (1..NLEV)
    z:  for kind index, level index
The quantile argument is p = (1+L)/2 (two-sided) or L (one-sided) for the *decimal* level L.
"""
import json, struct, sys, os, time
from mpmath import mp, mpf, betainc, findroot, erfinv, sqrt, floor, ceil, gamma, pi, power
import scipy.stats as st

mp.dps = 60
SCALE = 110
LEVELS = ["0.001", "0.01", "0.05", "0.1", "0.2", "0.25", "0.3", "0.5", "0.75", "0.8", "0.9", "0.95",
          "0.975", "0.99", "0.995", "0.998", "0.999", "0.9995", "0.9999"]
OUT = os.path.join(os.path.dirname(os.path.abspath(__file__)), "..", "spec", "tables")

def limbs(n):
    n = int(n); out = []
    while n > 0:
        out.append(n & 32767); n >>= 15
    return out

def enclosure(x):
    """|x| as integers lo <= |x| * 2^SCALE <= hi (1 unit wide unless exact)"""
    a = abs(x) * mpf(2) ** SCALE
    lo = int(floor(a)); hi = int(ceil(a))
    if hi == lo: hi = lo + 1
    # widen by one unit on each side to absorb the 60-digit working precision
    return max(lo - 1, 0), hi + 1

def t_cdf(t, nu):
    # regularised incomplete beta form
    x = nu / (nu + t * t)
    tail = betainc(nu / 2, mpf(1) / 2, 0, x, regularized=True) / 2
    return 1 - tail if t > 0 else tail

def t_quantile(p, nu):
    p = mpf(p); nu = mpf(nu)
    if p == mpf(1) / 2: return mpf(0)
    if p < mpf(1) / 2: return -t_quantile(1 - p, nu)
    x0 = mpf(st.t.ppf(float(p), float(nu)))
    f = lambda t: t_cdf(t, nu) - p
    try:
        r = findroot(f, x0, tol=mpf(10) ** -50, maxsteps=100)
    except Exception:
        r = findroot(f, (x0 * mpf("0.99"), x0 * mpf("1.01")), solver="anderson", tol=mpf(10) ** -50, maxsteps=200)
    assert abs(f(r)) < mpf(10) ** -45, (p, nu, f(r))
    return r

def z_quantile(p):
    p = mpf(p)
    return sqrt(2) * erfinv(2 * p - 1)

def parg(kind, L):
    L = mpf(L)
    return (1 + L) / 2 if kind == "two" else L

def sparse_nus():
    # ~120 log-spaced integers in (300, 99999] plus both sides of the t/z switch
    import math
    s = set()
    k = 0
    while True:
        v = int(round(300 * (99999 / 300.0) ** (k / 119.0)))
        if v > 99999: break
        if v > 300: s.add(v)
        k += 1
        if k > 119: break
    s |= {301, 500, 999, 1000, 5000, 9999, 10000, 49999, 50000, 99997, 99998, 99999}
    # n - 1 for sample sizes that tests and users typically choose (the repository's own tests use 500)
    s |= {399, 499, 599, 749, 1499, 1999, 2499, 4999, 19999}
    s |= {1023, 4095, 8191, 16383, 65535}          # n a power of two (block sizes of chunked implementations)
    return sorted(s)

def main():
    os.makedirs(OUT, exist_ok=True)
    nus = list(range(1, 301)) + sparse_nus()
    t0 = time.time()
    with open(os.path.join(OUT, "levels.ndjson"), "w") as f:
        for i, L in enumerate(LEVELS):
            bits = struct.unpack(">Q", struct.pack(">d", float(L)))[0]
            from fractions import Fraction
            f.write(json.dumps({"li": i + 1, "dec": L, "bits": "%016x" % bits, "a": int(Fraction(L) * 10000)}) + "\n")
    with open(os.path.join(OUT, "nus.ndjson"), "w") as f:
        for i, nu in enumerate(nus):
            f.write(json.dumps({"ni": i + 1, "nu": nu}) + "\n")
    with open(os.path.join(OUT, "zq.ndjson"), "w") as f:
        for ki, kind in enumerate(("two", "one")):
            for li, L in enumerate(LEVELS):
                z = z_quantile(parg(kind, L))
                lo, hi = enclosure(z)
                f.write(json.dumps({"ki": ki + 1, "li": li + 1, "sg": (1 if z > 0 else (-1 if z < 0 else 0)),
                                    "lo": limbs(lo), "hi": limbs(hi)}) + "\n")
    with open(os.path.join(OUT, "tq.ndjson"), "w") as f:
        for ni, nu in enumerate(nus):
            for ki, kind in enumerate(("two", "one")):
                for li, L in enumerate(LEVELS):
                    t = t_quantile(parg(kind, L), nu)
                    lo, hi = enclosure(t)
                    f.write(json.dumps({"ni": ni + 1, "ki": ki + 1, "li": li + 1,
                                        "sg": (1 if t > 0 else (-1 if t < 0 else 0)),
                                        "lo": limbs(lo), "hi": limbs(hi)}, separators=(",", ":")) + "\n")
            if ni % 20 == 0:
                print(f"nu={nu} ({ni+1}/{len(nus)}) {time.time()-t0:.0f}s", flush=True)
    print("done", len(nus), "nus", time.time() - t0)

if __name__ == "__main__":
    main()
