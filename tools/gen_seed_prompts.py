#!/usr/bin/env python3
"""Write the prompts for a further round of independent seeded-defect authors (sub-agents).
usage: tools/gen_seed_prompts.py <round-no> <scratch-dir>        e.g. 3 /tmp/wt3
Each prompt holds only: the text of one property, the location of the author's own scratch worktree, and
the names + one-line descriptions of the seeded defects of earlier rounds (so that they are not repeated).
Nothing of the verification machinery is disclosed."""
import json, os, sys, glob

ROOT = os.path.dirname(os.path.dirname(os.path.abspath(__file__)))
rnd, scratch = sys.argv[1], sys.argv[2]
os.makedirs(os.path.join(scratch, "prompts"), exist_ok=True)
earlier = {}
for d in sorted(glob.glob(os.path.join(ROOT, "seeded", "*"))):
    mp = os.path.join(d, "meta.json")
    if os.path.isfile(mp):
        m = json.load(open(mp))
        nm = m.get("name") or os.path.basename(d)
        what = str(m.get("what_it_changes") or m.get("what") or "")[:300].replace("\n", " ")
        earlier.setdefault(m.get("property", os.path.basename(d).split("-")[0]), []).append(f"- {nm}: {what}")

NATURES = {
    "7": "a change SPLIT OVER TWO SITES that each look fine alone (a helper whose contract shifts slightly and a caller that relied on the old "
         "contract; a constant or threshold changed in one module and a comparison against it in another; a `Default` that no longer matches `new()`; "
         "a `From` / `Into` / `TryFrom` pair that no longer round-trips; a trait default method overridden for one of several sibling types; a private "
         "field whose meaning changes (e.g. stores n-1 instead of n) with all but one reader adapted); sequences of THREE OR MORE calls where the middle "
         "one is a query, a clone, a merge with an empty or with itself, or a failed call (what state remains after an element is rejected in the "
         "middle of a bulk operation, and what the NEXT call returns); input iterators that are consumed lazily, twice, or whose `size_hint` lies, "
         "by-reference vs by-value iteration, slices vs arrays vs Vec vs other containers; feature-gated code paths (`std` vs `libm`, `serde`, "
         "`approx`) and Cargo.toml feature wiring; formatting details (flags, precision, sign) where the property speaks of rendering; behaviour that "
         "depends on the NUMBER of earlier calls (first vs second vs hundredth), on the parity of a count, or on which of two equal-looking code "
         "paths the compiler's method resolution picks (inherent vs trait, `&T` vs `T` impls, `Add<&Self>` vs `Add<Self>`).  The trigger should still be narrow, "
         "and the change should read like something a maintainer could plausibly commit.",
    "6": "use what is particular to Rust and to floating point: `as` casts that truncate, saturate or wrap (usize <-> f64 <-> u32/i32), `min` / `max` / "
         "`clamp` in the presence of NaN or signed zeros, `f32::EPSILON` vs `f64::EPSILON` or a constant of the wrong float type inside generic code, "
         "`T::from(x).unwrap()` vs lossy conversion, `powi` / `sqrt` / `ln_1p` / `mul_add` substitutions that are not bit-identical, integer division "
         "or remainder where a float one was meant, `checked_` / `saturating_` / `wrapping_` arithmetic on counts, `sort_unstable` / `select_nth` / "
         "`dedup` / `binary_search` replacing a plain sort or scan, lazy iterator adaptors evaluated twice or not at all, `zip` that silently "
         "truncates, `Default` / `Clone` / `PartialEq` / `PartialOrd` / `Hash` written by hand instead of derived (or the reverse) for one type only, an "
         "inherent method shadowing a trait method for one of several sibling types (Arithmetic / Geometric / Harmonic, Paired / Unpaired, the two "
         "Stats types), a macro-generated impl that treats one listed type differently, `#[inline]`-style refactorings that reorder floating-point "
         "operations, early `return` / `?` placed before a state update, and match arms whose order matters.  The trigger should still be narrow.",
    "5": "aim for a defect that a checker probing a dense but PLAUSIBLE grid of inputs would still miss: a trigger that is a conjunction of two or three "
         "ordinary-looking conditions (e.g. one-sided AND level below 1/2 AND an odd sample size; f32 AND more than 2^24 observations; a merge whose "
         "LEFT operand is empty AND whose right operand was itself produced by a merge); a value that is special only to the implementation (an "
         "internal threshold such as 100 000, 1024, DATA_CAP, epsilon, a tie in rounding q*n to x.5, n*p exactly 10, counts whose product "
         "exceeds 2^53); behaviour that differs between the FIRST call and later calls on the same thread or the same object (lazy statics, memoised "
         "values, a register that is not reset); non-determinism or dependence on call history; an off-by-one that only shows at the largest or "
         "smallest admissible argument; a change that is correct for every sample the checker would BUILD BY A SIMPLE RULE (arithmetic progressions, "
         "constant blocks, symmetric data) but wrong for irregular data (many distinct values, no symmetry, repeated values next to unique ones, "
         "values given in a non-monotone order); interactions between the incremental API and queries (querying between updates, querying an "
         "intermediate state and then continuing).",
    "4": "a defect visible only for ONE element / float type (f32 but not f64, String but not integers, unsigned but not signed) or only through generic / "
         "trait dispatch; a defect in the PAYLOAD of an error or in a rarely read accessor (sample_sem, sample_std_dev, percent, width, left/right) rather "
         "than in the interval itself; a defect that needs LARGE sizes or counts (n above 10^5, above 2^24 in f32, above 2^32) or very SMALL ones (n = 2, "
         "k = 2, exactly the minimum admissible input); a defect that only shows when the operands of a binary operation are in a particular ORDER or "
         "are the SAME object (a + a, a.relative_to(&a), merging a state with a clone of itself); a defect in Default / Clone / From / TryFrom / "
         "FromIterator / Hash implementations; a defect that depends on the sign of zero, on infinities as data or probes, or on values next to a power "
         "of two; a defect in how an EMPTY input or an empty partial state is treated; a performance-motivated rewrite (sorting replaced by selection, "
         "early exit, caching, chunked or SIMD-style accumulation, integer arithmetic replacing floating point) that is right on the happy path only.",
    "3": "a defect in an ERROR path or a rarely taken branch (state modified before an error is returned, a wrong payload in an error, an early return that skips "
         "an update); a defect that needs TWO calls to cooperate (the first leaves something behind - a cache, a counter, a sign, a stale field - and the second "
         "misbehaves); a defect confined to ONE call style when several exist (trait method vs inherent method, by-reference vs by-value, iterator vs slice, "
         "`+` vs `+=`, explicit `.clone()` vs copy); a defect that appears only at a BOUNDARY value of a size or level (n exactly at a threshold, level exactly "
         "0.5, k = n - k, an index equal to len - 1); a defect that is numerically SMALL (relative error 1e-12 .. 1e-5) or affects only the last few bits; a "
         "defect that depends on the ORDER of the data or of the operands; a refactoring that looks like a pure simplification (algebraically equal in real "
         "numbers, different in floating point or for unsigned integers); a change in Cargo.toml (features, dependency flags) if the property is about builds.",
}

for line in open(os.path.join(ROOT, "properties.jsonl")):
    p = json.loads(line)
    pid = p["id"]
    wt = f"{scratch}/{pid}"
    anchors = p.get("anchors", {})
    mech = [m.get("name") for m in anchors.get("mechanism", [])]
    prev = "\n".join(earlier.get(pid, [])) or "(none)"
    txt = f"""You are helping to evaluate a verification effort for the Rust crate `stats-ci` (confidence intervals for means, quantiles, proportions; generic Interval type; Kahan summation).

You have your own scratch git worktree of the repository at {wt} (a detached checkout). Work ONLY inside that directory. Do not touch /repo or /verif and do not read anything under /verif.

THE PROPERTY ({pid}): {p['title']}
Statement: {p['statement']}
Quantified over: {p['quantifier']['text']}
Why the existing tests cannot settle it: {p['why_tests_cant']}
Code anchors: files {anchors.get('files')}; mechanisms: {mech}

YOUR TASK: produce TWO different, realistic changes ("seeded defects") to the crate's source (under src/ or Cargo.toml), each of which
  (a) still compiles (default features; if the property is about features, also say what you intend),
  (b) still passes the ENTIRE existing test suite unchanged: run `CARGO_TARGET_DIR={scratch}/target-{pid} cargo test --workspace --no-fail-fast --offline` in {wt} (takes 1-2 minutes; the network is unavailable, --offline is required), and
  (c) BREAKS the property above.
Prefer subtle changes that need something specific to manifest - NOT changes that ordinary use would expose at once, and not changes already caught by the existing tests. Think like a plausible maintainer slip or "optimisation".

For EACH of the two changes deliver, in the directory {wt}/_seeded/<name>/ (name = short slug):
  - patch.diff : `git diff` of the change against the worktree's HEAD (only the source change, not the demo). Produce it with `git -C {wt} diff -- src Cargo.toml > ...`.
  - a demonstration: an integration test file `demo_test.rs` (meant to be copied to tests/demo_<name>.rs; uses only the public API of the crate `stats_ci`) that FAILS (assertion/panic) WITH the change and PASSES WITHOUT it. Verify both directions yourself by actually running it (copy to tests/, run `CARGO_TARGET_DIR={scratch}/target-{pid} cargo test --offline --test demo_<name>` with and without the patch applied; add `--features serde` if the demo needs serde).
  - meta.json : {{"property": "{pid}", "name": ..., "what_it_changes": ..., "needs_to_manifest": ..., "commands_run": [...], "existing_tests_pass": true}}
After producing a change and its files, REVERT the source tree (`git -C {wt} checkout -- src Cargo.toml`) before starting the next one, so that each patch.diff applies to a clean HEAD. Leave the worktree clean at the end except for the _seeded directory (remove any tests/demo_*.rs you added).

Report back briefly: the two names, one line each on what they change and what is needed to trigger them, and confirm that you ran the full existing suite with each patch applied and it passed.

ROUND {rnd} - IMPORTANT: earlier rounds already produced the following seeded defects for this property; do NOT repeat them or close variants of them. Produce two NEW defects of a DIFFERENT nature (different code site or different triggering mechanism):
{prev}
Ideas for different natures (pick what fits this property): {NATURES.get(rnd, NATURES['3'])}
Note: the repository HEAD contains a small module src/verif_trace.rs and `#[cfg(stats_ci_verif)]` blocks at the top of a few functions: these are inert instrumentation (compiled out by default) - leave them alone and do not rely on them.
"""
    open(os.path.join(scratch, "prompts", f"{pid}.txt"), "w").write(txt)
print("prompts written to", os.path.join(scratch, "prompts"))
