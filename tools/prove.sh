#!/bin/sh
# Re-check the TLAPS proofs of the unbounded interval lemmas (spec/proofs/IntervalLemmas.tla) from scratch.
cd "$(dirname "$0")/../spec/proofs" || exit 2
rm -rf .tlacache
timeout "${1:-600}" tlapm --threads 8 IntervalLemmas.tla 2>&1 | grep -E 'obligations|error|Error|failed' | tail -5
