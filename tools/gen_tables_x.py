#!/usr/bin/env python3-vt
"""Reference rows for designed unpaired sample pairs with NON-INTEGER effective degrees of freedom.

For a fixed list of small integer samples (a, b) the Welch-type effective dof of the crate's documented formula
    nu = (A + B)^2 / (A^2/(na+1) + B^2/(nb+1)) - 2,   A = sa^2/na, B = sb^2/nb
is an exact rational; this script computes it with fractions, and the Student-t quantile at that real nu for the
34 (kind, level) arguments at 60 digits (same enclosure format as gen_tables.py).  Output: spec/tables/tqx.ndjson,
one row per (pair, kind, level), carrying the samples themselves so that generator, judge and table share one source.
"""
import json, os, sys
from fractions import Fraction
sys.path.insert(0, os.path.dirname(os.path.abspath(__file__)))
from gen_tables import LEVELS, limbs, enclosure, t_quantile, parg, OUT
from mpmath import mpf

PAIRS = [
    ([1, 2, 4, 7], [3, 3, 5, 9, 10, 12]),
    ([10, 12, 9, 11, 13], [20, 29, 11, 35, 2, 17, 26]),
    ([1, 1, 2], [5, 9, 4, 12, 30]),
    ([100, 104, 97, 101, 99, 103], [90, 110, 85, 120]),
    ([3, 8], [1, 2, 3, 4, 5, 6, 7, 8, 9, 10]),
    ([2, 4, 6, 8, 10, 12, 14, 16], [1, 9]),
    ([5, 5, 6, 7, 9, 14, 20, 21, 22], [8, 9, 10, 11, 12, 13, 14]),
    ([1, 50, 3, 47, 9], [20, 21, 22, 23, 24, 25, 26, 27, 28, 29, 30, 31]),
    ([7, 7, 7, 8], [1, 2, 3]),
    ([0, 1, 0, 1, 0, 1, 0, 1, 0, 1, 0, 1, 0, 1, 0, 1, 0, 1, 0, 2], [5, 3, 4, 6, 5, 4, 3, 5, 6, 4, 5, 5, 3, 4, 7]),
    ([-4, 3, -1, 8, 2, -6, 5], [0, 1, -1, 2, -2, 3, -3, 4, -4]),
    ([12, 15, 11, 19, 14, 13, 17, 16, 18, 10, 12, 15, 14], [25, 9, 31, 4, 17, 22, 28, 13, 6, 35]),
]

# neighbours share the integer part of their (non-integer) effective dof
ORDER = [1, 11, 7, 12, 3, 8, 4, 9, 6, 5, 2, 10]
PAIRS = [PAIRS[i - 1] for i in ORDER]

def var_over_n(xs):
    n = len(xs); s1 = sum(xs); s2 = sum(x * x for x in xs)
    return Fraction(n * s2 - s1 * s1, n * (n - 1)) / n          # s^2 / n

def main():
    os.makedirs(OUT, exist_ok=True)
    with open(os.path.join(OUT, "tqx.ndjson"), "w") as f:
        for pi, (a, b) in enumerate(PAIRS):
            A = var_over_n(a); B = var_over_n(b)
            nu = (A + B) ** 2 / (A * A / (len(a) + 1) + B * B / (len(b) + 1)) - 2
            assert nu.denominator != 1, (pi, nu)
            for ki, kind in enumerate(("two", "one")):
                for li, L in enumerate(LEVELS):
                    t = t_quantile(parg(kind, L), mpf(nu.numerator) / mpf(nu.denominator))
                    lo, hi = enclosure(t)
                    f.write(json.dumps({"pi": pi + 1, "ki": ki + 1, "li": li + 1, "a": a, "b": b,
                                        "nu_num": limbs(nu.numerator), "nu_den": limbs(nu.denominator),
                                        "nu_text": "%.9f" % float(nu),
                                        "sg": (1 if t > 0 else (-1 if t < 0 else 0)), "lo": limbs(lo), "hi": limbs(hi)},
                                       separators=(",", ":")) + "\n")
            print(pi + 1, float(nu), flush=True)
main()
