#!/usr/bin/env python3
"""Confirm a seeded change produced by a sub-agent and run the checks against it.

usage: tools/eval_seeded.py <PROP> <worktree> [<check ids to run> ...]
For every <worktree>/_seeded/<name>/ :
  1. in the scratch worktree: apply patch.diff, run the full existing suite (must pass),
     run the demonstration (must fail); revert, run the demonstration (must pass);
  2. apply the patch to the repository (VERIF_REPO, default /repo), run the quick checks, restore it;
  3. copy patch, demo and an extended meta.json to <SEEDED_OUT or this tree's seeded>/<PROP>-<name>/.
"""
import json, os, shutil, subprocess, sys, glob
ROOT = os.path.dirname(os.path.dirname(os.path.abspath(__file__)))
SEEDED_OUT = os.environ.get("SEEDED_OUT") or os.path.join(ROOT, "seeded")

def sh(cmd, cwd=None, env=None, timeout=3600):
    p = subprocess.run(cmd, shell=True, cwd=cwd, env=env, stdout=subprocess.PIPE, stderr=subprocess.STDOUT, text=True, timeout=timeout)
    return p.returncode, p.stdout

def main():
    prop, wt = sys.argv[1], sys.argv[2]
    checks = sys.argv[3:] or [prop]
    scratch = os.path.dirname(wt.rstrip("/"))
    env = dict(os.environ, CARGO_TARGET_DIR=f"{scratch}/target-{prop}", CARGO_NET_OFFLINE="true")
    for d in sorted(glob.glob(os.path.join(wt, "_seeded", "*"))):
        name = os.path.basename(d)
        patch = os.path.join(d, "patch.diff")
        demos = [f for f in os.listdir(d) if f.endswith(".rs")] or [f for f in os.listdir(d) if f.endswith(".sh")]
        if not os.path.exists(patch) or not demos:
            print(f"[{name}] incomplete: skipped"); continue
        demo = os.path.join(d, demos[0])
        res = {"name": name, "property": prop}
        sh("git checkout -- . && rm -f tests/demo_seeded.rs", cwd=wt)
        rc, out = sh(f"git apply {patch}", cwd=wt)
        if rc != 0:
            print(f"[{name}] patch does not apply: {out[:200]}"); continue
        rc, out = sh("cargo test --workspace --no-fail-fast --offline 2>&1 | grep -E '^test result|FAILED|^error' ", cwd=wt, env=env)
        res["suite_passes_with_patch"] = ("FAILED" not in out and "failed; " in out and all(" 0 failed" in l for l in out.splitlines() if l.startswith("test result")) and "error" not in out)
        if demo.endswith(".sh"):
            run_demo = lambda: sh(f"bash {demo} {wt} > /tmp/demo_out.txt 2>&1; echo DEMO_RC=$?", cwd=wt, env=env)
            _, out1 = run_demo()
            res["demo_fails_with_patch"] = "DEMO_RC=0" not in out1
            sh("git checkout -- src Cargo.toml", cwd=wt)
            _, out2 = run_demo()
            res["demo_passes_without_patch"] = "DEMO_RC=0" in out2
        else:
            feats = ""
            txt = open(demo).read()
            if "serde" in txt or "toml" in txt:
                feats = "--features serde"
            shutil.copy(demo, os.path.join(wt, "tests", "demo_seeded.rs"))
            rc1, out1 = sh(f"cargo test --offline {feats} --test demo_seeded 2>&1 | tail -5", cwd=wt, env=env)
            res["demo_fails_with_patch"] = "test result: FAILED" in out1 or "panicked" in out1
            sh("git checkout -- src Cargo.toml", cwd=wt)
            rc2, out2 = sh(f"cargo test --offline {feats} --test demo_seeded 2>&1 | tail -5", cwd=wt, env=env)
            res["demo_passes_without_patch"] = "test result: ok" in out2
        sh("rm -f tests/demo_seeded.rs && git checkout -- .", cwd=wt)
        # run the checks against the patch applied to /repo
        rc, out = sh(f"{ROOT}/tools/try_patch.sh {patch} {' '.join(checks)}", cwd=ROOT)
        res["checks"] = {}
        cur = None
        for line in out.splitlines():
            if line.startswith("== "):
                cur = line.split()[1]; res["checks"][cur] = {"rc": int(line.split("rc=")[1]), "lines": []}
            elif cur and line.startswith(("VIOLATION", "TOOL-ERROR")):
                res["checks"][cur]["lines"].append(line[:200])
        res["caught_by"] = [c for c, v in res["checks"].items() if v["rc"] == 1]
        confirmed = res["suite_passes_with_patch"] and res["demo_fails_with_patch"] and res["demo_passes_without_patch"]
        res["confirmed"] = confirmed
        print(json.dumps({k: res[k] for k in ("name", "suite_passes_with_patch", "demo_fails_with_patch", "demo_passes_without_patch", "caught_by")}))
        if confirmed:
            import re
            m = re.search(r"/wt(\d+)/", wt)
            rnd = f"r{m.group(1)}-" if m else ""
            dst = f"{SEEDED_OUT}/{prop}-{rnd}{name}"
            os.makedirs(dst, exist_ok=True)
            shutil.copy(patch, os.path.join(dst, "patch.diff"))
            shutil.copy(demo, os.path.join(dst, os.path.basename(demo)))
            meta = {}
            mp = os.path.join(d, "meta.json")
            if os.path.exists(mp):
                try: meta = json.load(open(mp))
                except Exception: meta = {"raw": open(mp).read()[:2000]}
            meta.update({"property": prop, "confirmed_by_author": {
                "full_suite_passes_with_patch": True, "demo_fails_with_patch": True, "demo_passes_without_patch": True,
                "commands": ["git apply patch.diff", "cargo test --workspace --no-fail-fast --offline", "cargo test --offline --test demo_seeded (with / without patch)"]},
                "checks_run": {c: ("VIOLATION" if v["rc"] == 1 else ("pass" if v["rc"] == 0 else "tool-error")) for c, v in res["checks"].items()},
                "caught_by": res["caught_by"]})
            json.dump(meta, open(os.path.join(dst, "meta.json"), "w"), indent=1)
main()
