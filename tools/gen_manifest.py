#!/usr/bin/env python3
"""Regenerate /verif/MANIFEST.json from the registry (lib/props.py) and the texts below."""
import json, os, sys
ROOT = os.path.dirname(os.path.dirname(os.path.abspath(__file__)))
sys.path.insert(0, os.path.join(ROOT, "lib"))
import props

ALL = ["C%02d" % i for i in range(1, 21)]

TEXT = {
 "C07": ("interval", "TLA+ spec of Interval as closed sets (Interval.tla); TLC checks closed forms = set definitions on all triples, "
         "enumerates all pairs over a chain x 9 element types, replays them on the crate, and TLC judges every recorded result "
         "against the set-theoretic definition. Exhaustive within the chain bound, which realises every relative order of the bounds.",
         "TLC model checking + exhaustive spec->impl replay + trace validation"),
 "C14": ("interval", "All raw bound pairs x all construction paths x all accessors/conversions x 9 element types, enumerated by TLC from "
         "the interval session model, executed on the crate and judged by TLC against the specification's constructor outcomes and accessor table.",
         "TLC model checking + exhaustive spec->impl replay + trace validation"),
 "C15": ("interval", "TLC proves on the bounded model that the order definition (member-wise <=) is a strict partial order consistent with "
         "equality on all triples, and validates partial_cmp and all comparison operators of the crate on every ordered pair x 9 element types.",
         "TLC model checking + exhaustive spec->impl replay + trace validation"),
 "C13": ("interval", "TLC checks that the reference closed forms of scalar/interval arithmetic are sound, tight and well-formed on the bounded box, "
         "enumerates every (interval, scalar, op) and every interval pair of the box plus relative_to on a dyadic grid, replays them on the crate (i32, f64) "
         "and judges each recorded result by quantifying over the members of the operands (soundness, attained bounds, kind, documented panics).",
         "TLC model checking + exhaustive spec->impl replay + trace validation"),
 "C18": ("confidence", "TLC checks the Confidence algebra over level classes (validity by construction, involution, order laws) and validates every constructor "
         "outcome (ok / panic / InvalidConfidenceLevel), accessor, flipped and comparison of the crate on class representatives incl. NaN, infinities, "
         "subnormals and the neighbours of 0 and 1, judged on exact dyadic values of the f64 levels.",
         "TLC model checking + exhaustive spec->impl replay + trace validation (exact dyadic arithmetic in TLA+)"),
 "C19": ("interval", "Interval-level approximate equality must equal the kind-aware conjunction of the element-level results for every kind combination and "
         "independently displaced bounds (TLC re-evaluates |x-y|<=eps exactly for the absolute mode); Display string checked against the canonical forms for all chain intervals x 9 types.",
         "TLC generator + trace validation (exact dyadic arithmetic in TLA+)"),
 "C09": ("accum", "TLA+ state machines of the seven incremental statistics over registers (abstract state = the bag a register must represent). TLC checks that "
         "the sufficient statistics the crate keeps refine the bag machine (any history = batch) on all programs of the bounded model, enumerates by BFS every "
         "API program up to a length bound (plus simulated long programs), replays them on the crate and validates every step: outcome, multiset bookkeeping, "
         "counts, purity of queries and bit-equality of all observations with the one-shot batch computation.",
         "TLC model checking (refinement) + exhaustive program enumeration + trace validation carrying abstract state"),
 "C20": ("accum", "The advertised feature sets are a constant of the specification and each must build (cargo, offline, /repo working tree); serde round trips are a "
         "stuttering action of the accumulation machines: every program with round trips at every position is replayed on a serde-enabled harness and TLC "
         "requires restored == original and bit-identical observations with a twin history without round trips; Confidence and Interval values round-trip.",
         "TLC program enumeration + trace validation (twin histories); plain enumeration of cargo feature builds"),
 "C11": ("totality", "The allowed outcomes of every entry point are a decision table over input classes in TLA+ (Totality.tla). TLC enumerates the table "
         "(entry point x call style x offending class x position x kind x level x float type), the harness executes each case with panics caught as data, "
         "and TLC judges every recorded outcome: error variant in the allowed set, no panic outside the documented ones, no Ok with NaN bounds or low > high.",
         "TLC enumeration of the decision table + trace validation (fault enumeration over input classes)"),
 "C02": ("proportion", "The Wilson / Wald bounds are specified as roots of polynomials over exact dyadic arithmetic in TLA+ (Proportion.tla) with z^2 ranging over a certified "
         "reference enclosure; TLC enumerates every (n, k) of the bounded table x levels x kinds x methods x front-ends, the harness executes them, and TLC accepts a "
         "bound only by a rigorous root enclosure (sign change within 2^-46), checks the outcome class against the documented domain and the front-ends bit-for-bit.",
         "TLC exhaustive (n,k) table + trace validation with exact arithmetic in TLA+ (root enclosure of the score polynomial)"),
 "C17": ("proportion", "The validator carries the recorded table of the current (n, level, method) and TLC evaluates the relational clauses between events: monotone in k, "
         "mirror symmetry k <-> n-k with upper <-> lower, shrinking under multipliers, widening with the level, midpoint location; exhaustive over the bounded table.",
         "TLC trace validation with carried state (relational clauses over pairs of recorded calls), exact arithmetic"),
 "C03": ("proportion", "Rank arithmetic specified over exact dyadic models of the f64 operations (Quantile.tla): successes = round(fl(q n)), ranks = min(floor(fl(p n)), n-1) of the "
         "crate's own Wilson bounds; TLC enumerates all n up to the bound x a quantile grid with half-integer products and float neighbours, every permutation of small "
         "multisets and seeded shuffles of large ones, and judges every recorded rank / element / error variant; entry points must agree.",
         "TLC exhaustive enumeration (ranks, permutations) + trace validation with exact float modelling in TLA+"),
 "C12": ("proportion", "For each (n, confidence) the harness records the interval of every outcome k (or every q on a grid); TLC forms the acceptance sets by exact comparison and sums the "
         "binomial distribution exactly (big integers in TLA+ / BigInteger accelerator checked by MC_Binomial), then checks pointwise and mean coverage against the "
         "specification's slack functions. The probability is summed over all outcomes, not sampled.",
         "TLC trace validation with carried rows; exact binomial sums in the TLA+ kernel"),
 "C01": ("mean", "The arithmetic-mean interval is specified over exact dyadic arithmetic in TLA+ (Mean.tla): TLC computes the exact sufficient statistics of every generated "
         "run-length sample (up to 10^6 observations) and accepts a returned bound only if (n b - S1)^2 (n-1) = c^2 (n S2 - S1^2) within the conditioning-aware tolerance, "
         "c^2 ranging over the certified enclosure of the t / normal quantile, with the sign of c; statistics accessors and all call styles (bit for bit) are judged as well.",
         "TLC generator + trace validation with exact arithmetic in TLA+ against reference quantile tables"),
 "C04": ("mean", "Paired: exact moments of the exact differences, bit-identical to the arithmetic interval of the differences, DifferentSampleSizes with both lengths. Unpaired: "
         "exact rational standard error and effective degrees of freedom (Welch-type, documented variant) computed by TLC; the critical value must lie between the t-table rows "
         "of floor and ceil of the dof (designed families give integer dof); exchanging the samples must mirror the interval bit for bit with upper and lower exchanged.",
         "TLC generator + trace validation with exact rational arithmetic in TLA+; relational clause over exchanged calls"),
 "C05": ("mean", "Geometric / harmonic producers are specified as compositions with the arithmetic producer in the transformed space; ln/exp are uninterpreted (sampled), reciprocals "
         "are checked exactly. TLC validates bounds, means, both standard-error transforms, H <= G <= A, and - on every short program with non-positive values - rejection with the value and an unchanged state.",
         "TLC generator + trace validation (uninterpreted transcendental functions, exact reciprocals) + BFS program enumeration for rejections"),
 "C06": ("mean", "Probe samples with exactly known standard error for every degrees-of-freedom row of the reference table x all levels x kinds: the implied critical value must lie in the "
         "enclosure of the true quantile (tables generated at 60 digits, axioms incl. the exact nu = 2 closed form checked by TLC); z of proportion intervals by the root enclosure.",
         "TLC trace validation against reference tables whose axioms are model-checked"),
 "C08": ("kahan", "KahanSum is a TLA+ state machine over an exactly modelled float format (binary32 on integers); TLC checks |value - exact| <= 16 u sum|x| in every reachable "
         "state of all short sequences with merges (the constant does not depend on the length), enumerates every short program of that machine for the real "
         "KahanSum<f32/f64>, and validates long streams given as block descriptors by carrying the exact sum (arbitrary precision) through the trace.",
         "TLC model checking of the reference algorithm + BFS program enumeration + trace validation with exact ghost state"),
 "C10": ("relate", "Relational clauses over groups of calls on the same input: the trace validator carries the table (kind, level) -> bounds of a producer and TLC checks result kind, "
         "nesting in the level, one-sided(L) = two-sided(2L-1) and containment of the point estimate for all seven producers.",
         "TLC trace validation with carried tables (relational clauses over pairs of recorded calls)"),
 "C16": ("relate", "Each base call is followed by transformed calls; TLC compares the float encodings: exponent shift for power-of-two scaling and sign/ends exchange for negation are "
         "required bit-exactly, shifts and reorderings within rounding; includes all permutations of small samples and 10^5..10^6-term streams in several orders (f32 and f64).",
         "TLC trace validation with carried base outcome (bit-exact relational clauses on float encodings)"),
}
PENDING_REASON = "check not built yet in this round (planned, see DESIGN.md section 4); not claimed"

def main():
    checks = []
    na = []
    for pid in ALL:
        if pid in props.REGISTRY and pid in TEXT:
            eng, text, tech = TEXT[pid]
            spec = props.REGISTRY[pid]("quick", 0)
            checks.append({
                "property_id": pid,
                "quick_cmd": f"./check {pid} --tier quick",
                "thorough_cmd": f"./check {pid} --tier thorough",
                "evidence_file": f"/verif/evidence/{pid}.json",
                "replay_cmd_template": f"./check {pid} --replay {{path}}",
                "engine": eng,
                "level_claimed": {"category": spec.get("level", "model_checking"), "text": text,
                                  "design_ref": f"DESIGN.md section 4 ({pid})"},
                "level_note": "; ".join(spec.get("assumptions", [])),
                "technique": tech,
            })
        else:
            na.append({"property_id": pid, "reason": PENDING_REASON})
    man = {
        "version": 1,
        "setup_cmd": "./setup.sh",
        "hooks": {
            "guard": "stats_ci_verif",
            "enable": "RUSTFLAGS=\"--cfg stats_ci_verif\" (set in /verif/harness/.cargo/config.toml; recording additionally needs STATS_CI_TRACE=<file>, used by the own_tests stages of C01/C02/C03 which run /repo's test-suite with the hooks on)",
            "baseline_off_cmd": "cd /repo && cargo test --workspace --no-fail-fast --offline",
            "source_commits": ["2907762"],
            "add_only": True,
        },
        "engines": [
            {"name": "confidence", "path": "spec/Confidence.tla spec/MC_Confidence.tla spec/Gen_Confidence.tla spec/Trace_Confidence.tla spec/Float.tla spec/BigNum.tla java/verif",
             "serves_properties": ["C18"],
             "kind_free_text": "TLA+ value algebra of Confidence over level classes / exact dyadic levels"},
            {"name": "accum", "path": "spec/Accum.tla spec/MC_Accum.tla spec/Gen_Accum.tla spec/Trace_Accum.tla spec/Gen_Build.tla spec/Trace_Build.tla harness/src/accum.rs",
             "serves_properties": ["C09", "C20"],
             "kind_free_text": "TLA+ state machines of the incremental statistics (bags), refinement check, BFS program generator, stateful trace validator"},
            {"name": "totality", "path": "spec/Totality.tla spec/Gen_Totality.tla spec/Trace_Totality.tla harness/src/prod.rs",
             "serves_properties": ["C11"],
             "kind_free_text": "decision table input class -> allowed outcomes, generator and validator"},
            {"name": "proportion", "path": "spec/Proportion.tla spec/RefTables.tla spec/MC_Tables.tla spec/Gen_Proportion.tla spec/Trace_Proportion.tla spec/tables tools/gen_tables.py",
             "serves_properties": ["C02", "C17", "C12", "C03"],
             "kind_free_text": "score-polynomial root enclosures over exact dyadic arithmetic; reference quantile tables with axioms; relational validator"},
            {"name": "mean", "path": "spec/Mean.tla spec/Gen_Mean.tla spec/Trace_Mean.tla spec/Rng.tla spec/RefTables.tla",
             "serves_properties": ["C01", "C04", "C05", "C06", "C10", "C16"],
             "kind_free_text": "exact statistics of run-length samples and bound judges over dyadic arithmetic; reference tables; grouped relational clauses"},
            {"name": "kahan", "path": "spec/Kahan.tla spec/MC_Kahan.tla spec/Gen_Kahan.tla spec/Trace_Kahan.tla harness/src/kahan.rs",
             "serves_properties": ["C08"],
             "kind_free_text": "compensated summation as a state machine in an exact float model; BFS programs; stream descriptors"},
            {"name": "relate", "path": "spec/Gen_Relate.tla spec/Trace_Relate.tla",
             "serves_properties": ["C10", "C16"],
             "kind_free_text": "grouped relational validator"},
            {"name": "interval", "path": "spec/Interval.tla spec/IntervalSession.tla spec/MC_Interval.tla spec/Gen_Interval.tla spec/Trace_Interval.tla",
             "serves_properties": ["C07", "C13", "C14", "C15", "C19"],
             "kind_free_text": "TLA+ value algebra of intervals as closed sets; TLC model check + generator + trace validator"},
        ],
        "checks": checks,
        "not_applicable": na,
        "notes": "All verdicts are TLC's: generator specs emit cases, the Rust harness executes them on /repo's working tree and records outcomes, trace specs judge them. See DESIGN.md.",
    }
    json.dump(man, open(os.path.join(ROOT, "MANIFEST.json"), "w"), indent=1)
    print("MANIFEST.json:", len(checks), "checks,", len(na), "not claimed")

main()
