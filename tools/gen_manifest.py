#!/usr/bin/env python3
"""Regenerate /verif/MANIFEST.json from the registry (lib/props.py) and the texts below."""
import json, os, sys
ROOT = os.path.dirname(os.path.dirname(os.path.abspath(__file__)))
sys.path.insert(0, os.path.join(ROOT, "lib"))
import props

ALL = ["C%02d" % i for i in range(1, 21)]

TEXT = {
 "C07": ("interval", "TLA+ spec of Interval as closed sets (Interval.tla); TLC checks closed forms = set definitions on all triples, "
         "enumerates all pairs over a chain x 9 element types, replays them on the crate, and TLC judges every recorded result "
         "against the set-theoretic definition. Exhaustive within the chain bound, which realises every relative order of the bounds.",
         "TLC model checking + exhaustive spec->impl replay + trace validation"),
 "C14": ("interval", "All raw bound pairs x all construction paths x all accessors/conversions x 9 element types, enumerated by TLC from "
         "the interval session model, executed on the crate and judged by TLC against the specification's constructor outcomes and accessor table.",
         "TLC model checking + exhaustive spec->impl replay + trace validation"),
 "C15": ("interval", "TLC proves on the bounded model that the order definition (member-wise <=) is a strict partial order consistent with "
         "equality on all triples, and validates partial_cmp and all comparison operators of the crate on every ordered pair x 9 element types.",
         "TLC model checking + exhaustive spec->impl replay + trace validation"),
}
PENDING_REASON = "check not built yet in this round (planned, see DESIGN.md section 4); not claimed"

def main():
    checks = []
    na = []
    for pid in ALL:
        if pid in props.REGISTRY and pid in TEXT:
            eng, text, tech = TEXT[pid]
            spec = props.REGISTRY[pid]("quick", 0)
            checks.append({
                "property_id": pid,
                "quick_cmd": f"./check {pid} --tier quick",
                "thorough_cmd": f"./check {pid} --tier thorough",
                "evidence_file": f"/verif/evidence/{pid}.json",
                "replay_cmd_template": f"./check {pid} --replay {{path}}",
                "engine": eng,
                "level_claimed": {"category": spec.get("level", "model_checking"), "text": text,
                                  "design_ref": f"DESIGN.md section 4 ({pid})"},
                "level_note": "; ".join(spec.get("assumptions", [])),
                "technique": tech,
            })
        else:
            na.append({"property_id": pid, "reason": PENDING_REASON})
    man = {
        "version": 1,
        "setup_cmd": "./setup.sh",
        "hooks": {
            "guard": "stats_ci_verif",
            "enable": "RUSTFLAGS=\"--cfg stats_ci_verif\" (set in /verif/harness/.cargo/config.toml)",
            "baseline_off_cmd": "cd /repo && cargo test --workspace --no-fail-fast --offline",
            "source_commits": [],
            "add_only": True,
        },
        "engines": [
            {"name": "interval", "path": "spec/Interval.tla spec/IntervalSession.tla spec/MC_Interval.tla spec/Gen_Interval.tla spec/Trace_Interval.tla",
             "serves_properties": ["C07", "C13", "C14", "C15", "C19"],
             "kind_free_text": "TLA+ value algebra of intervals as closed sets; TLC model check + generator + trace validator"},
        ],
        "checks": checks,
        "not_applicable": na,
        "notes": "All verdicts are TLC's: generator specs emit cases, the Rust harness executes them on /repo's working tree and records outcomes, trace specs judge them. See DESIGN.md.",
    }
    json.dump(man, open(os.path.join(ROOT, "MANIFEST.json"), "w"), indent=1)
    print("MANIFEST.json:", len(checks), "checks,", len(na), "not claimed")

main()
