"""Convert the call records written by the guarded hooks of /repo (src/verif_trace.rs, --cfg stats_ci_verif)
into trace events for the TLA+ validators.  No verdicts here: floats are re-encoded from their raw bits,
levels are mapped to the level index of the reference tables (records at other levels are counted and
skipped), and a quantile record is joined with the Wilson record of the inner call made by the same thread."""
import json, os, struct

LB = 15

def enc_f64_bits(bits, t="f64"):
    s = bits >> 63
    exp = (bits >> 52) & 0x7FF
    frac = bits & ((1 << 52) - 1)
    b = "%016x" % bits
    if exp == 0x7FF:
        if frac:
            return {"t": t, "tag": "nan", "b": b}
        return {"t": t, "tag": "-inf" if s else "inf", "b": b}
    if exp == 0:
        m, e = frac, -1074
    else:
        m, e = frac | (1 << 52), exp - 1075
    if m == 0:
        e = 0
    else:
        while m % 2 == 0:
            m //= 2; e += 1
    limbs = []
    mm = m
    while mm > 0:
        limbs.append(mm & ((1 << LB) - 1)); mm >>= LB
    return {"t": t, "tag": "fin", "s": s, "e": e, "m": limbs, "b": b}

def f64_of_bits(bits):
    return struct.unpack(">d", struct.pack(">Q", bits))[0]

def bits_of_f64(x):
    return struct.unpack(">Q", struct.pack(">d", x))[0]

def load_levels(tables_dir):
    lv = {}
    for line in open(os.path.join(tables_dir, "levels.ndjson")):
        r = json.loads(line)
        lv[r["bits"]] = (r["li"], r["dec"])
    return lv

def parse_out_f(tokens):
    if tokens[0] == "err":
        return {"tag": "err", "variant": tokens[1]}
    kind = tokens[1]
    if kind == "two":
        return {"tag": "ok", "iv": {"kind": "two", "lo": enc_f64_bits(int(tokens[2], 16)), "hi": enc_f64_bits(int(tokens[3], 16))}}
    if kind == "upper":
        return {"tag": "ok", "iv": {"kind": "upper", "lo": enc_f64_bits(int(tokens[2], 16))}}
    if kind == "lower":
        return {"tag": "ok", "iv": {"kind": "lower", "hi": enc_f64_bits(int(tokens[2], 16))}}
    return {"tag": "err", "variant": "Unknown"}

def parse_out_i(tokens):
    if tokens[0] == "err":
        return {"tag": "err", "variant": tokens[1]}
    kind = tokens[1]
    if kind == "two":
        return {"tag": "ok", "iv": {"kind": "two", "lo": int(tokens[2]), "hi": int(tokens[3])}}
    if kind == "upper":
        return {"tag": "ok", "iv": {"kind": "upper", "lo": int(tokens[2])}}
    return {"tag": "ok", "iv": {"kind": "lower", "hi": int(tokens[2])}}

def convert(raw_path, tables_dir, want):
    """want in {"W", "Q", "M"}: returns (events, stats)"""
    levels = load_levels(tables_dir)
    evs = []
    stats = {"records": 0, "skipped_level": 0, "skipped_other": 0}
    last_w = {}           # thread -> last Wilson record (k, out)
    n_id = 0
    for line in open(raw_path, errors="replace"):
        parts = line.split()
        if "->" not in parts:
            continue
        # "ThreadId(7) W two 3fee.. n k -> ok two lo hi"
        thread = parts[0]
        tag = parts[1]
        arrow = parts.index("->")
        args, out = parts[2:arrow], parts[arrow + 1:]
        kind, lbits = args[0], args[1]
        lvl = levels.get(lbits)
        conf = {"kind": kind, "level": {"dec": lvl[1]}} if lvl else None
        confv = {"kind": kind, "level": enc_f64_bits(int(lbits, 16))}
        if tag in ("W", "Z"):
            n, k = int(args[2]), int(args[3])
            o = parse_out_f(out)
            if tag == "W":
                last_w[thread] = (n, k, kind, lbits, o)
            if want != "W":
                continue
            stats["records"] += 1
            if not lvl:
                stats["skipped_level"] += 1; continue
            if n >= 2 ** 31 or k >= 2 ** 31:
                stats["skipped_other"] += 1; continue
            n_id += 1
            evs.append({"id": n_id, "op": "prop.ci", "fe": "ci_wilson" if tag == "W" else "ci_z_normal",
                        "method": "wilson" if tag == "W" else "wald", "n": n, "k": k, "conf": conf, "confv": confv,
                        "li": lvl[0], "grp": "hook", "first": True, "rowstart": True, "out": o})
        elif tag == "Q" and want == "Q":
            stats["records"] += 1
            n = int(args[2]); qbits = int(args[3], 16)
            if not lvl:
                stats["skipped_level"] += 1; continue
            q = f64_of_bits(qbits)
            o = parse_out_i(out)
            qn = q * n
            wil = []
            w = last_w.get(thread)
            if w and w[0] == n and w[2] == kind and w[3] == lbits:
                wil = [{"k": w[1], "out": w[4]}]
            n_id += 1
            evs.append({"id": n_id, "op": "quant.ranks", "n": n, "q": {"bits": "%016x" % qbits}, "qv": enc_f64_bits(qbits),
                        "qn": enc_f64_bits(bits_of_f64(qn)), "wil": wil, "conf": conf, "confv": confv, "li": lvl[0],
                        "out": o, "out_stats": o, "grp": "hook"})
        elif tag == "M" and want == "M":
            stats["records"] += 1
            count = int(args[2]); mbits = int(args[3], 16); sbits = int(args[4], 16); ty = args[5]
            if not lvl:
                stats["skipped_level"] += 1; continue
            o = parse_out_f(out) if out[0] == "ok" and out[1] != "none" else {"tag": "err", "variant": out[1] if len(out) > 1 else "Error"}
            n_id += 1
            evs.append({"id": n_id, "op": "mean.hook", "ty": "f32" if ty == "f32" else "f64", "count": count,
                        "mean": enc_f64_bits(mbits), "std": enc_f64_bits(sbits), "conf": conf, "confv": confv, "li": lvl[0],
                        "out": o})
    return evs, stats
