#!/usr/bin/env python3
"""Driver of the TLA+ model-based checks for stats-ci.

    ./check <ID> [--tier quick|thorough] [--replay <cases.ndjson>]

Pipeline per stage of a property (DESIGN.md section 3.1):
    model-level TLC runs  ->  TLC case generator  ->  Rust harness on /repo's
    working tree  ->  TLC trace validator (the judge)  ->  verdict + evidence.
The driver only moves files between the tools, compares rejected events with
known_findings.json and writes the evidence file.  It decides nothing.

Exit codes: 0 property held on everything explored; 1 violation (prints
"VIOLATION property=<id> replay=<path>"); 2 tool error / timeout / vacuity.
"""
import json, os, re, subprocess, sys, time, shutil, hashlib

ROOT = os.path.dirname(os.path.dirname(os.path.abspath(__file__)))
SPEC = os.path.join(ROOT, "spec")
WORK = os.path.join(ROOT, "work")
HARNESS_DIR = os.path.join(ROOT, "harness")
HARNESS = os.path.join(HARNESS_DIR, "target", "release", "verif-harness")
REPO = os.environ.get("VERIF_REPO", "/repo")     # development only: a snapshot of the repository (vp run --with-repo)
TLA_JAR = "/opt/veriftools/tla/tla2tools.jar"
CM_JAR = "/opt/veriftools/tla/CommunityModules-deps.jar"
CLASSES = os.path.join(ROOT, "java", "classes")
NOISE = ("Parsing file", "Semantic processing", "Linting of module", "Picked up JAVA_TOOL_OPTIONS")


class ToolError(Exception):
    pass


def log(*a):
    print(*a, file=sys.stderr, flush=True)


# ------------------------------------------------------------------ tools

def build_harness():
    """(re)build the harness against /repo's current working tree"""
    t0 = time.time()
    lock = os.path.join(HARNESS_DIR, "Cargo.lock")
    if not os.path.exists(lock):
        shutil.copy(os.path.join(REPO, "Cargo.lock"), lock)
    if REPO != "/repo":
        ct = os.path.join(HARNESS_DIR, "Cargo.toml")
        txt = open(ct).read()
        if 'path = "/repo"' in txt:
            open(ct, "w").write(txt.replace('path = "/repo"', f'path = "{REPO}"'))
    env = dict(os.environ, CARGO_NET_OFFLINE="true")
    p = subprocess.run(["cargo", "build", "--release", "--offline"], cwd=HARNESS_DIR, env=env,
                       stdout=subprocess.PIPE, stderr=subprocess.STDOUT, text=True)
    if p.returncode != 0:
        raise ToolError("harness build failed:\n" + p.stdout[-4000:])
    log(f"[build] harness ok ({time.time()-t0:.1f}s)")


def build_java():
    src = os.path.join(ROOT, "java", "verif")
    srcs = [os.path.join(src, f) for f in os.listdir(src) if f.endswith(".java")] if os.path.isdir(src) else []
    if not srcs:
        return
    os.makedirs(CLASSES, exist_ok=True)
    newest = max(os.path.getmtime(f) for f in srcs)
    stamp = os.path.join(CLASSES, ".stamp")
    if os.path.exists(stamp) and os.path.getmtime(stamp) >= newest:
        return
    p = subprocess.run(["javac", "-nowarn", "-cp", f"{TLA_JAR}:{CM_JAR}", "-d", CLASSES] + srcs,
                       stdout=subprocess.PIPE, stderr=subprocess.STDOUT, text=True)
    if p.returncode != 0:
        raise ToolError("javac failed:\n" + p.stdout[-4000:])
    open(stamp, "w").write("ok")


class TlcResult:
    def __init__(self):
        self.generated = 0
        self.distinct = 0
        self.lines = []     # payload lines (decoded PrintT strings)
        self.ok = False
        self.raw_tail = ""
        self.wall = 0.0


def run_tlc(module, cfg, env=None, workers=1, timeout=1800, mode="bfs", seed=None, simulate=None,
            heap="4g", deque=False, tag="tlc", allow_stuck=False):
    """Run TLC on spec/<module>.tla with spec/<cfg>; returns TlcResult.
    PrintT("KEY {json}") lines are collected in .lines as (KEY, obj)."""
    build_java()
    os.makedirs(WORK, exist_ok=True)
    meta = os.path.join(WORK, f"md.{tag}.{os.getpid()}.{int(time.time()*1000)%100000}")
    jopts = ["-XX:+UseParallelGC", "-XX:ParallelGCThreads=2", "-Xss1g", f"-Xmx{heap}"]
    if deque:
        jopts.append("-Dtlc2.tool.queue.IStateQueue=StateDeque")
    if os.path.isdir(CLASSES) and os.environ.get("VERIF_NO_OVERRIDES") != "1" \
            and os.path.exists(os.path.join(CLASSES, "verif", "Index.class")):
        jopts.append("-Dtlc2.overrides.TLCOverrides=tlc2.overrides.TLCOverrides:verif.Index")
    cmd = ["java"] + jopts + ["-cp", f"{TLA_JAR}:{CM_JAR}:{CLASSES}", "tlc2.TLC",
                              "-workers", str(workers), "-metadir", meta, "-noGenerateSpecTE",
                              "-config", os.path.join(SPEC, cfg)]
    if seed is not None:
        cmd += ["-seed", str(seed)]
    if simulate:
        cmd += ["-simulate", simulate]
    cmd += [os.path.join(SPEC, module + ".tla")]
    e = dict(os.environ)
    e.pop("JAVA_TOOL_OPTIONS", None)
    e["VERIF_TABLES"] = os.path.join(SPEC, "tables")
    if env:
        e.update({k: str(v) for k, v in env.items()})
    t0 = time.time()
    res = TlcResult()
    try:
        p = subprocess.run(cmd, cwd=SPEC, env=e, stdout=subprocess.PIPE, stderr=subprocess.STDOUT,
                           text=True, timeout=timeout)
    except subprocess.TimeoutExpired:
        shutil.rmtree(meta, ignore_errors=True)
        raise ToolError(f"TLC timeout after {timeout}s: {module}")
    finally:
        shutil.rmtree(meta, ignore_errors=True)
    res.wall = time.time() - t0
    tail = []
    for line in p.stdout.splitlines():
        if line.startswith('"') and line.endswith('"') and len(line) > 5:
            try:
                sline = json.loads(line)
            except Exception:
                sline = None
            if sline is not None:
                sp = sline.find(" ")
                if sp > 0 and sline[:sp].isupper():
                    try:
                        res.lines.append((sline[:sp], json.loads(sline[sp + 1:])))
                        continue
                    except Exception:
                        pass
        if not line.strip() or line.startswith(NOISE):
            continue
        tail.append(line)
        m = re.match(r"(\d+) states generated, (\d+) distinct states found", line)
        if m:
            res.generated, res.distinct = int(m.group(1)), int(m.group(2))
        m = re.match(r"The number of states generated: (\d+)", line)      # simulation mode
        if m:
            res.generated = res.distinct = int(m.group(1))
    res.raw_tail = "\n".join(tail[-40:])
    txt = p.stdout
    res.ok = (p.returncode == 0 and ("No error has been found" in txt or "Finished in" in txt)
              and "Error:" not in txt)
    log(f"[tlc] {module}/{cfg} {env or ''} -> rc={p.returncode} gen={res.generated} "
        f"distinct={res.distinct} payload={len(res.lines)} ({res.wall:.1f}s)")
    if not res.ok:
        # a trace validator that cannot take its next step: the recorded event has a shape the specification does not admit
        # (a missing field, an outcome of an unknown form).  That is a rejection of the trace at that event, not a tool error.
        stuck = None
        if allow_stuck and "The error occurred when TLC was evaluating the nested" in txt:
            ms = re.findall(r"^/\\ l = (\d+)\s*$", txt, flags=re.M)
            if ms:
                stuck = int(ms[-1])
        if stuck is None:
            raise ToolError(f"TLC failed on {module} ({cfg}):\n{res.raw_tail}")
        res.stuck_at = stuck
    return res


def run_harness(cases_path, trace_path, timeout=3600, binary=None, env=None):
    t0 = time.time()
    try:
        p = subprocess.run([binary or HARNESS, "replay", cases_path, trace_path], stdout=subprocess.PIPE,
                           env=dict(os.environ, **{k: str(v) for k, v in (env or {}).items()}),
                           stderr=subprocess.STDOUT, text=True, timeout=timeout)
    except subprocess.TimeoutExpired:
        raise ToolError("harness timeout")
    if p.returncode != 0:
        raise ToolError("harness failed:\n" + p.stdout[-3000:])
    log(f"[harness] {os.path.basename(cases_path)} ({time.time()-t0:.1f}s)")


# ------------------------------------------------------------------ findings

def load_findings():
    p = os.path.join(ROOT, "known_findings.json")
    if not os.path.exists(p):
        return []
    return json.load(open(p)).get("findings", [])


def dig(obj, path):
    for k in path.split("."):
        if isinstance(obj, dict) and k in obj:
            obj = obj[k]
        else:
            return None
    return obj


def match_finding(findings, prop, ev, failed):
    """an *open* finding whose matcher covers this rejected event, else None"""
    for f in findings:
        if f.get("status") != "open" or f.get("property") != prop:
            continue
        m = f.get("match", {})
        ok = True
        for k, v in m.items():
            if k == "clauses":
                if not set(failed) <= set(v):
                    ok = False
            else:
                got = dig(ev, k)
                if isinstance(v, list):
                    if got not in v:
                        ok = False
                elif got != v:
                    ok = False
            if not ok:
                break
        if ok:
            return f
    return None


# ------------------------------------------------------------------ stage runner

class Stage:
    """one generator -> harness -> validator pass"""
    def __init__(self, name, gen, trace, mc=(), env=None, gen_workers=1, trace_env=None,
                 required=(), simulate=None, gen_timeout=1800, trace_timeout=3600, shards=1,
                 executor=None, harness_bin=None, stop_on_violation=False, harness_env=None, adopt=(), max_cases=None):
        self.name = name
        self.gen = gen              # (module, cfg)
        self.trace = trace          # (module, cfg)
        self.mc = list(mc)          # [(module, cfg, env, workers)]
        self.env = env or {}
        self.trace_env = trace_env or {}
        self.gen_workers = gen_workers
        self.required = set(required)   # clauses that must be exercised (vacuity guard)
        self.simulate = simulate
        self.gen_timeout = gen_timeout
        self.trace_timeout = trace_timeout
        self.shards = shards
        self.executor = executor            # callable(cases_path, trace_path) instead of the Rust harness
        self.harness_bin = harness_bin      # alternative harness binary (C20: serde build)
        self.stop_on_violation = stop_on_violation
        self.harness_env = harness_env or {}    # e.g. HARNESS_THREADS=1 where the call order matters
        # clauses of the shared validator that are named after another property but decide this one too
        # (e.g. the Wilson root enclosure C02.root_lo is how C06 decides the normal quantile)
        self.adopt = set(adopt)
        self.max_cases = max_cases          # upper bound on the cases taken from the generator (simulation stages)


class Outcome:
    def __init__(self):
        self.states = 0
        self.transitions = 0
        self.cases = 0
        self.events = 0
        self.cov = {}
        self.bad = []          # (stage, event, failed-clauses)
        self.samples = []
        self.stage_info = []
        self.extra = {}


def validate_trace(st, prop, trace_path, tag):
    """run the trace validator on one trace file; returns a result dict (merged by the caller)"""
    env = dict(st.env)
    env.update(st.trace_env)
    env["TRACE"] = trace_path
    env["PROP"] = prop
    r = run_tlc(st.trace[0], st.trace[1], env=env, workers=1, deque=True,
                timeout=st.trace_timeout, tag=tag, allow_stuck=True)
    res = {"states": r.distinct, "transitions": r.generated, "bads": [], "cov": None, "info": []}
    stuck = getattr(r, "stuck_at", None)
    if stuck is not None:
        # the id of the event at position l of this trace file
        ev_id = None
        with open(trace_path) as f:
            for i, line in enumerate(f, 1):
                if i == stuck:
                    try:
                        ev_id = json.loads(line).get("id")
                    except Exception:
                        pass
                    break
        log(f"[stuck] {st.trace[0]} cannot evaluate event {ev_id} (position {stuck}) of {os.path.basename(trace_path)}")
        res["bads"] = [v for k, v in r.lines if k == "BAD"]
        if ev_id is not None:
            res["bads"].append({"id": ev_id, "failed": [prop + ".event_not_admitted_by_the_specification"]})
            res["cov"] = {"events": stuck, "bad": len(res["bads"]), "cov": {}}
            return res
    for k, v in r.lines:
        if k == "COV":
            res["cov"] = v
        elif k == "BAD":
            res["bads"].append(v)
        elif k == "INFO":
            res["info"].append(v)
    if res["cov"] is None:
        raise ToolError(f"validator {st.trace[0]} did not consume the whole trace:\n{r.raw_tail}")
    return res


def merge_validation(st, out, res):
    out.states += res["states"]
    out.transitions += res["transitions"]
    cov = res["cov"]
    for c, n in (cov.get("cov") or {}).items():
        out.cov[c] = out.cov.get(c, 0) + n
    out.events += cov.get("events", 0)
    for k, v in cov.items():
        if k not in ("cov", "events", "bad"):
            key = f"{st.name}.{k}"
            if isinstance(v, (int, float)) and isinstance(out.extra.get(key), (int, float)):
                out.extra[key] = max(out.extra[key], v)
            else:
                out.extra[key] = v
    if res["info"]:
        out.extra.setdefault("info", []).extend(res["info"][:20])
    return res["bads"]


def run_stage(st, prop, tier, seed, out, replay=None):
    pid = os.getpid()
    base = os.path.join(WORK, f"{prop}.{st.name}.{pid}")
    cases_path = base + ".cases.ndjson"
    trace_path = base + ".trace.ndjson"
    env = dict(st.env)
    env["PROP"] = prop
    env["TIER"] = tier
    env["SEED"] = seed
    if replay is None:
        for (m, c, e, w) in st.mc:
            ee = dict(env)
            ee.update(e or {})
            r = run_tlc(m, c, env=ee, workers=w, tag=f"{prop}.mc")
            out.states += r.distinct
            out.transitions += r.generated
            out.stage_info.append({"model_check": m, "cfg": c, "distinct_states": r.distinct,
                                   "states_generated": r.generated, "wall_s": round(r.wall, 1)})
            for k, v in r.lines:
                if k == "INFO":
                    out.extra.setdefault("info", []).append(v)
        if st.gen is None:
            # no generated cases: the executor records calls of a workload it runs itself (the repository's own tests)
            open(cases_path, "w").close()
            st.executor(cases_path, trace_path)
            r = None
        else:
            r = run_tlc(st.gen[0], st.gen[1], env=env, workers=st.gen_workers, seed=seed,
                        simulate=st.simulate, timeout=st.gen_timeout, tag=f"{prop}.gen")
        if r is not None:
            out.states += r.distinct
            out.transitions += r.generated
            n = 0
            with open(cases_path, "w") as f:
                for k, v in r.lines:
                    if k == "CASE":
                        if st.max_cases and n >= st.max_cases:
                            break               # simulation mode emits an unpredictable number of behaviours: a fixed prefix is used
                        n += 1
                        v["cid"] = n
                        f.write(json.dumps(v, separators=(",", ":")) + "\n")
            if n == 0:
                raise ToolError(f"generator {st.gen[0]} produced no cases:\n{r.raw_tail}")
            out.stage_info.append({"generator": st.gen[0], "stage": st.name, "cases": n,
                                   "distinct_states": r.distinct, "wall_s": round(r.wall, 1)})
            out.cases += n
        else:
            out.stage_info.append({"stage": st.name, "recorded_workload": "repository test-suite with hooks"})
    else:
        shutil.copy(replay, cases_path)
        out.cases += sum(1 for _ in open(cases_path))
    if st.gen is None:
        pass                                  # trace already recorded above
    elif st.executor is not None:
        st.executor(cases_path, trace_path)
    else:
        run_harness(cases_path, trace_path, binary=st.harness_bin, env=st.harness_env)
    evs = {}
    with open(trace_path) as f:
        for line in f:
            e = json.loads(line)
            evs[e["id"]] = e
            if len(out.samples) < 3 or (len(out.samples) < 6 and e["id"] % 997 == 0):
                out.samples.append(e)
    for e in evs.values():
        if e.get("op") == "harness.unknown":
            raise ToolError(f"harness does not know case: {json.dumps(e)[:300]}")
    # shard long traces (one JVM each, sequential: state per event)
    bads = []
    if st.shards > 1 and len(evs) > 2000:
        lines = open(trace_path).read().splitlines()
        per = (len(lines) + st.shards - 1) // st.shards
        procs = []
        # cut only where a new behaviour starts (events carrying "first": true), so that the
        # validator's carried state is reset at the beginning of every shard
        cuts = [0]
        pos = per
        while pos < len(lines):
            while pos < len(lines) and '"first":false' in lines[pos]:
                pos += 1
            if pos < len(lines):
                cuts.append(pos)
            pos += per
        cuts.append(len(lines))
        for i in range(len(cuts) - 1):
            part = lines[cuts[i]:cuts[i + 1]]
            if not part:
                continue
            pth = f"{base}.trace.{i}.ndjson"
            open(pth, "w").write("\n".join(part) + "\n")
            procs.append(pth)
        from concurrent.futures import ThreadPoolExecutor
        with ThreadPoolExecutor(max_workers=min(8, len(procs))) as ex:
            futs = [ex.submit(validate_trace, st, prop, pth, f"{prop}.tr{i}")
                    for i, pth in enumerate(procs)]
            for fu in futs:
                bads += merge_validation(st, out, fu.result())
        for pth in procs:
            os.remove(pth)
    else:
        bads = merge_validation(st, out, validate_trace(st, prop, trace_path, f"{prop}.tr"))
    # behaviours: events carrying "first" flags belong to a group that must be replayed as a whole
    ids = sorted(evs)
    group_of = {}
    if ids and "first" in evs[ids[0]]:
        start = ids[0]
        for i in ids:
            if evs[i].get("first"):
                start = i
            group_of[i] = start
    groups = {}
    for i, g in group_of.items():
        groups.setdefault(g, []).append(i)
    # the replay file holds CASES (what the generator emitted), looked up through the case id
    cases_by_cid = {}
    with open(cases_path) as f:
        for line in f:
            try:
                c = json.loads(line)
                cases_by_cid[c.get("cid")] = c
            except Exception:
                pass
    grp_cache = {}          # (a group can hold thousands of events and be rejected thousands of times)
    for b in bads:
        failed = [c for c in b["failed"] if c.startswith(prop + ".") or c in st.adopt]
        if failed:
            ev = evs[b["id"]]
            gkey = group_of.get(b["id"]) if group_of else ("single", b["id"])
            if gkey not in grp_cache:
                members = [evs[i] for i in groups.get(gkey, [])] if group_of else [ev]
                cids = {}
                for m in members:
                    cids.setdefault(m.get("cid"), None)
                grp_cache[gkey] = [cases_by_cid[c] for c in cids if c in cases_by_cid]
            out.bad.append((st.name, ev, failed, grp_cache[gkey]))
    # (a stage in which events were rejected has established a violation: coverage that depends on the behaviour of the code
    # under test - e.g. "subnormal data accepted" - must not turn it into a tool error)
    if replay is None and not any(b[0] == st.name for b in out.bad):
        missing = [c for c in st.required if out.cov.get(c, 0) == 0]
        if missing:
            raise ToolError(f"vacuity guard: clauses never exercised in stage {st.name}: {missing}")
    return cases_path, trace_path


# ------------------------------------------------------------------ binding self-test

def _perturb_float(f):
    """change an encoded float by about 2^-22 relative (third limb), keep the encoding consistent"""
    if not isinstance(f, dict) or f.get("tag") != "fin":
        return False
    m = list(f.get("m") or [])
    while len(m) < 3:
        m.append(0)
    m[2] ^= 1
    if not any(m):
        m[2] = 1
    f["m"] = m
    f["b"] = "00" + f.get("b", "")[2:] if f.get("b", "").startswith("ff") else "ff" + f.get("b", "")[2:]
    return True


def corrupt_event(e):
    """corrupt ONE recorded field of an event in place; returns a description or None if nothing applicable"""
    op = e.get("op", "")
    if isinstance(e.get("res"), bool):
        e["res"] = not e["res"]; return "res flipped"
    if op == "iv.cmp":
        e["res"]["cmp"] = "lt" if e["res"]["cmp"] != "lt" else "gt"; return "cmp changed"
    if op == "iv.observe":
        e["res"]["is_two_sided"] = not e["res"]["is_two_sided"]; return "is_two_sided flipped"
    if op == "iv.eqhash":
        e["res"]["eq"] = not e["res"]["eq"]; return "eq flipped"
    if op == "iv.display":
        e["res"] = e["res"] + " "; return "display string changed"
    if op in ("conf.observe",) and e.get("res", {}).get("tag") == "ok":
        e["res"]["kind"] = e["res"]["kind"] + "x"; return "kind string changed"
    if op == "conf.cmp" and e.get("res", {}).get("tag") == "ok":
        e["res"]["eq"] = not e["res"]["eq"]; return "eq flipped"
    if op == "accum.step":
        e["regs"][0]["ca"] += 1
        e["regs"][0]["obs"] = e["regs"][0]["obs"] + "x"; return "count and observation changed"
    if op == "kahan.step":
        return "value perturbed" if _perturb_float(e["vals"][0]) else None
    if op == "build":
        e["ok"] = not e["ok"]; return "build outcome flipped"
    if op in ("serde.conf", "serde.interval") and e.get("out", {}).get("tag") == "ok":
        e["out"]["eq"] = False; return "round-trip equality cleared"
    if op == "prop.sig" and e.get("out", {}).get("tag") == "ok":
        e["out"]["res"] = not e["out"]["res"]; return "is_significant flipped"
    if op == "mean.hook" and e.get("out", {}).get("tag") == "ok":
        iv = e["out"]["iv"]
        return "bound perturbed" if _perturb_float(iv.get("lo") or iv.get("hi")) else None
    out = e.get("out")
    if isinstance(out, dict):
        if out.get("tag") == "ok" and isinstance(out.get("iv"), dict):
            iv = out["iv"]
            for side in ("lo", "hi"):
                if isinstance(iv.get(side), dict):
                    if _perturb_float(iv[side]):
                        return f"{side} bound perturbed by 2^-22"
                elif isinstance(iv.get(side), int):
                    iv[side] += 3; return f"{side} changed by 3"
            if "k" in iv:
                iv["k"] = "up" if iv["k"] != "up" else "low"; return "kind changed"
        if out.get("tag") == "err":
            out["variant"] = out.get("variant", "") + "X"; return "error variant changed"
        if out.get("tag") == "panic":
            out["tag"] = "ok"; return None
    return None


def selftest_stage(st, prop, trace_path):
    """corrupt single events of a recorded trace and require the validator to reject exactly those"""
    lines = open(trace_path).read().splitlines()
    if not lines:
        return []
    results = []
    picks = sorted(set(int(len(lines) * f) for f in (0.11, 0.37, 0.5, 0.73, 0.93)))
    for pos in picks:
        # search forward for an event the corruptor knows how to corrupt (and that the property judges)
        for j in range(pos, min(pos + 400, len(lines))):
            e = json.loads(lines[j])
            what = corrupt_event(e)
            if what:
                break
        else:
            continue
        # keep the behaviour the event belongs to (events before it back to its "first")
        start = j
        while start > 0 and json.loads(lines[start]).get("first") is False:
            start -= 1
        part = lines[start:j] + [json.dumps(e, separators=(",", ":"))]
        pth = trace_path + f".selftest.{j}"
        open(pth, "w").write("\n".join(part) + "\n")
        try:
            res = validate_trace(st, prop, pth, f"{prop}.selftest")
            rejected = any(b["id"] == e["id"] for b in res["bads"])
        finally:
            os.remove(pth)
        results.append({"stage": st.name, "event": e["id"], "op": e.get("op"), "corruption": what, "rejected": rejected})
        log(f"[selftest] {prop}/{st.name} event {e['id']} ({e.get('op')}): {what} -> {'rejected' if rejected else 'ACCEPTED'}")
    return results


def write_evidence(prop, tier, seed, out, level, wall, violations, notes, assumptions, exhaustive):
    # development runs against a deliberately modified tree (tools/try_patch.sh) write elsewhere
    evdir = os.environ.get("VERIF_EVIDENCE_DIR") or os.path.join(ROOT, "evidence")
    os.makedirs(evdir, exist_ok=True)
    cov = {c: n for c, n in sorted(out.cov.items()) if c.startswith(prop + ".")}
    ev = {
        "property_id": prop, "tier": tier, "seed": int(seed), "level": level,
        "coverage": {
            "states": int(out.states), "transitions": int(out.transitions),
            "traces_validated_against_impl": int(out.events),
            "samples": out.samples[:6] or [{"note": "no trace events"}],
            "evaluations": int(out.cases),
            "clause_coverage": cov,
            "stages": out.stage_info,
            "exhaustive": bool(exhaustive),
            "rule": notes,
        },
        "assumptions": assumptions,
        "wall_s": round(wall, 1),
        "violations": int(violations),
    }
    ev["coverage"].update(out.extra)
    with open(os.path.join(evdir, f"{prop}.json"), "w") as f:
        json.dump(ev, f, indent=1)


def main(argv, registry):
    if len(argv) < 2:
        print(__doc__)
        return 2
    prop = argv[1]
    tier = os.environ.get("VERIF_TIER", "quick")
    replay = None
    selftest = False
    i = 2
    while i < len(argv):
        if argv[i] == "--tier":
            tier = argv[i + 1]; i += 2
        elif argv[i] == "--replay":
            replay = argv[i + 1]; i += 2
        elif argv[i] == "--selftest":
            selftest = True; i += 1
        else:
            print("unknown argument", argv[i]); return 2
    if tier not in ("quick", "thorough"):
        tier = "quick"
    seed = int(os.environ.get("VERIF_SEED", "20260929")) % (2 ** 31)
    if prop not in registry:
        print(f"unknown property {prop}")
        return 2
    spec = registry[prop](tier, seed)
    t0 = time.time()
    out = Outcome()
    try:
        build_harness()
        for pre in spec.get("pre", []):
            pre(tier, seed, out)
        stages = spec["stages"]
        if replay:
            # the replay file records the stage it came from in its name: <prop>.<stage>....
            nm = os.path.basename(replay).split(".")
            stages = [s for s in stages if len(nm) > 1 and s.name == nm[1]] or stages[:1]
        for st in stages:
            nbad0 = len(out.bad)
            paths = run_stage(st, prop, tier, seed, out, replay=replay)
            if selftest:
                out.extra.setdefault("selftest", []).extend(selftest_stage(st, prop, paths[1]))
            if st.stop_on_violation and len(out.bad) > nbad0:
                log(f"[stop] stage {st.name} rejected events; later stages depend on it and are skipped")
                break
        for post in spec.get("post", []):
            post(tier, seed, out)
    except ToolError as e:
        print(f"TOOL-ERROR property={prop}: {e}")
        return 2
    if selftest:
        rs = out.extra.get("selftest", [])
        acc = [r for r in rs if not r["rejected"]]
        print(f"SELFTEST property={prop}: {len(rs)} single-field corruptions, {len(rs) - len(acc)} rejected, {len(acc)} accepted")
        for r in acc:
            print("  ACCEPTED:", json.dumps(r))
        return 0 if rs and not acc else 2
    findings = load_findings()
    known = {}
    viol = {}
    for stage, ev, failed, grp in out.bad:
        f = match_finding(findings, prop, ev, failed)
        if f is not None:
            known.setdefault(f["key"], [f, 0])[1] += 1
        else:
            viol.setdefault(stage, []).append((ev, failed, grp))
    for key, (f, n) in known.items():
        print(f"KNOWN-FINDING: property={prop} {f['what']} [{key}; {n} rejected events]")
    rc = 0
    nviol = 0
    if viol:
        rc = 1
        os.makedirs(os.path.join(WORK, "replay"), exist_ok=True)
        for stage, items in viol.items():
            nviol += len(items)
            path = os.path.join(WORK, "replay", f"{prop}.{stage}.{tier}.ndjson")
            with open(path, "w") as f:
                seen = set()
                done_groups = set()
                for ev, failed, grp in items:
                    if id(grp) in done_groups:
                        continue
                    done_groups.add(id(grp))
                    for case in grp:
                        cid = case.get("cid")
                        if cid in seen:
                            continue
                        seen.add(cid)
                        f.write(json.dumps(case, separators=(",", ":")) + "\n")
                    if len(seen) > 20000:
                        break
            ev, failed, _ = items[0]
            print(f"VIOLATION property={prop} replay={path}")
            print(f"  stage={stage} rejected_events={len(items)} first: clauses={failed} "
                  f"event={json.dumps(ev)[:600]}")
    if not replay:
        write_evidence(prop, tier, seed, out, spec.get("level", "model_checking"), time.time() - t0,
                       nviol, spec.get("rule", ""), spec.get("assumptions", []),
                       spec.get("exhaustive", False))
    # clean per-run scratch
    for fn in os.listdir(WORK):
        if f".{os.getpid()}." in fn:
            try:
                os.remove(os.path.join(WORK, fn))
            except OSError:
                pass
    log(f"[done] {prop} tier={tier} events={out.events} rejected={len(out.bad)} "
        f"violations={nviol} known={sum(v[1] for v in known.values())} ({time.time()-t0:.1f}s)")
    return rc
