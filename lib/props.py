"""Registry: property id -> stages (generator / validator pairs and model-level runs)."""
from driver import Stage

TLC_TRUST = ["TLC 1.8.0 and its Json/IOUtils modules",
             "the harness executes the entry point named in each event and encodes values faithfully"]


def iv_mc(tier):
    box = 2 if tier == "quick" else 3
    return ("MC_Interval", "MC_Interval.cfg", {"IV_BOX": box}, 8)


def iv_chain(tier, required):
    n = 5 if tier == "quick" else 7
    return Stage("chain", ("Gen_Interval", "Gen_Interval.cfg"), ("Trace_Interval", "Trace_Interval.cfg"),
                 mc=[iv_mc(tier)], env={"FAMILY": "chain", "IV_N": n}, required=required)


def C07(tier, seed):
    req = ["C07.contains", "C07.range_contains", "C07.range_bounds", "C07.range_contains_consistent",
           "C07.intersects", "C07.includes", "C07.is_included_in"]
    return {
        "stages": [iv_chain(tier, req)],
        "exhaustive": True,
        "rule": "TLC enumerates every ordered pair of well-formed intervals (3 kinds) over a chain of N bound "
                "positions (N=5 quick, 7 thorough) plus two outer witnesses, and every (interval, probe) pair; "
                "each case is executed for 9 element types (i32, i8, u8, f64 with +0/-0/infinite probes, char, String). "
                "A case is distinct by (operation, type, operands); all are non-trivial.",
        "assumptions": TLC_TRUST + ["float intervals with NaN or infinite *bounds* are outside the property's closed-set reading"],
    }


def C15(tier, seed):
    return {
        "stages": [iv_chain(tier, ["C15.partial_cmp", "C15.operators", "C15.eq_consistent"])],
        "exhaustive": True,
        "rule": "all ordered pairs of intervals over the chain x 9 element types through partial_cmp and the five "
                "operators; transitivity / antisymmetry of the definition checked on all triples by MC_Interval.",
        "assumptions": TLC_TRUST,
    }


def C14(tier, seed):
    req = ["C14.make_outcome", "C14.wellformed", "C14.predicates", "C14.low_high", "C14.left_right", "C14.as_ref",
           "C14.projection", "C14.tuple", "C14.optpair", "C14.roundtrip", "C14.width", "C14.eq", "C14.hash"]
    return {
        "stages": [iv_chain(tier, req)],
        "exhaustive": True,
        "rule": "every pair of raw bounds (ordered, equal, inverted) through 8 construction paths (4 presence "
                "combinations for the option pair), every accessor / conversion of every interval, equality and hash "
                "of every ordered pair, for 9 element types.",
        "assumptions": TLC_TRUST + ["NaN bounds are outside the property's quantifier"],
    }


def C13(tier, seed):
    box = 4 if tier == "quick" else 6
    st_box = Stage("box", ("Gen_Interval", "Gen_Interval.cfg"), ("Trace_Interval", "Trace_Interval.cfg"),
                   mc=[iv_mc(tier)], env={"FAMILY": "box", "IV_BOX": box},
                   required=["C13.scalar_wellformed", "C13.scalar_kind", "C13.scalar_sound", "C13.scalar_tight",
                             "C13.binary_panic", "C13.binary_wellformed", "C13.binary_kind", "C13.binary_sound",
                             "C13.binary_tight"])
    st_rel = Stage("rel", ("Gen_Interval", "Gen_Interval.cfg"), ("Trace_Interval", "Trace_Interval.cfg"),
                   env={"FAMILY": "rel"},
                   required=["C13.relative_panic", "C13.relative_wellformed", "C13.relative_sound", "C13.relative_tight"])
    return {
        "stages": [st_box, st_rel],
        "exhaustive": True,
        "rule": "every interval of the three kinds over the integer box -BOX..BOX (BOX=4 quick, 6 thorough) x every scalar "
                "of the box x {+,-,*,/,neg} (i32 truncating division; f64 exact division by +-1,2,4), every ordered pair "
                "for interval+interval / interval-interval (incompatible one-sided pairs must panic), relative_to over "
                "all pairs on the dyadic grid {0,1/2,1,2,4}; soundness / tightness / kind judged by TLC over a window of members.",
        "assumptions": TLC_TRUST + ["membership is quantified over a finite window of the carrier wide enough for the box",
                                   "floats restricted to exactly representable values (no rounding in the judged operations)"],
    }


def C18(tier, seed):
    st = Stage("conf", ("Gen_Confidence", "Gen_Confidence.cfg"), ("Trace_Confidence", "Trace_Confidence.cfg"),
               mc=[("MC_Confidence", "MC_Confidence.cfg", {}, 1), ("MC_BigNum", "MC_BigNum.cfg", {}, 1)],
               env={"RANDOM_LEVELS": 0 if tier == "quick" else 2000},
               required=["C18.make_outcome", "C18.make_value", "C18.make_error", "C18.make_rejects_fallible",
                         "C18.make_rejects_panic", "C18.level", "C18.percent", "C18.kind_string", "C18.predicates",
                         "C18.flipped", "C18.default", "C18.partial_cmp", "C18.operators", "C18.eq"])
    return {
        "stages": [st],
        "exhaustive": tier == "quick",
        "rule": "17 level class representatives (NaN, +-inf, negatives, +-0, smallest subnormal, 1e-300, interior values, "
                "pred(1), 1, succ(1), 2) x 6 construction paths (f32 path sees the converted value); accessors of every valid "
                "(kind, level); all ordered pairs x 3x3 kinds for ordering/equality; thorough adds 2000 random 31-bit levels.",
        "assumptions": TLC_TRUST + ["constructing the public enum variants directly bypasses the constructors by design and is outside the property"],
    }


def C19(tier, seed):
    st_disp = iv_chain(tier, ["C19.display"])
    st_apx = Stage("approx", ("Gen_Approx", "Gen_Approx.cfg"), ("Trace_Interval", "Trace_Interval.cfg"),
                   env={"FAMILY": "chain"},
                   required=["C19.kind_aware", "C19.boundwise", "C19.symmetric", "C19.reflexive",
                             "C19.implied_by_eq", "C19.abs_exact", "C19.only_low_near", "C19.only_high_near"])
    return {
        "stages": [st_disp, st_apx],
        "exhaustive": True,
        "rule": "9 kind combinations x independent displacement of each bound (0..3 steps) x tolerances below/at/above each "
                "displacement, for abs_diff_eq / relative_eq / ulps_eq; the interval-level result must equal the kind-aware "
                "conjunction of the element type's own per-bound results (logged), which TLC re-evaluates exactly for the absolute mode; "
                "Display of every interval over the chain for 9 element types.",
        "assumptions": TLC_TRUST + ["the element-level predicates of the approx crate are the reference for relative / ULP modes"],
    }


REGISTRY = {"C19": C19, "C18": C18, "C13": C13, "C07": C07, "C14": C14, "C15": C15}
