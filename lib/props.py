"""Registry: property id -> stages (generator / validator pairs and model-level runs)."""
import json, os, shutil, subprocess, time
import driver
from driver import Stage

TLC_TRUST = ["TLC 1.8.0 and its Json/IOUtils modules",
             "the harness executes the entry point named in each event and encodes values faithfully"]


def iv_mc(tier):
    box = 2 if tier == "quick" else 3
    return ("MC_Interval", "MC_Interval.cfg", {"IV_BOX": box}, 8)


def iv_chain(tier, required):
    n = 5 if tier == "quick" else 7
    return Stage("chain", ("Gen_Interval", "Gen_Interval.cfg"), ("Trace_Interval", "Trace_Interval.cfg"),
                 mc=[iv_mc(tier), ("StatsCI", "StatsCI.cfg", {}, 1)], env={"FAMILY": "chain", "IV_N": n}, required=required)


def tlaps_lemmas(tier, seed, out):
    """thorough tier only, informational: re-prove the unbounded interval lemmas with TLAPS"""
    if tier != "thorough":
        return
    p = subprocess.run([os.path.join(driver.ROOT, "tools", "prove.sh"), "600"], stdout=subprocess.PIPE, stderr=subprocess.STDOUT, text=True)
    m = [l for l in p.stdout.splitlines() if "obligations" in l]
    out.extra["tlaps_unbounded_interval_lemmas"] = m[-1].strip() if m else ("not proved: " + p.stdout[-200:])
    driver.log("[tlaps] " + out.extra["tlaps_unbounded_interval_lemmas"])


def C07(tier, seed):
    req = ["C07.contains", "C07.range_contains", "C07.range_bounds", "C07.range_contains_consistent",
           "C07.intersects", "C07.includes", "C07.is_included_in", "C07.nan_probe"]
    return {
        "stages": [iv_chain(tier, req)],
        "pre": [tlaps_lemmas],
        "exhaustive": True,
        "rule": "TLC enumerates every ordered pair of well-formed intervals (3 kinds) over a chain of N bound "
                "positions (N=5 quick, 7 thorough) plus two outer witnesses, and every (interval, probe) pair; "
                "each case is executed for 9 element types (i32, i8, u8, f64 with +0/-0/infinite probes, char, String). "
                "A case is distinct by (operation, type, operands); all are non-trivial.",
        "assumptions": TLC_TRUST + ["float intervals with NaN or infinite *bounds* are outside the property's closed-set reading"],
    }


def C15(tier, seed):
    return {
        "stages": [iv_chain(tier, ["C15.partial_cmp", "C15.operators", "C15.eq_consistent", "C15.infinite_explicit_bound"])],
        "pre": [tlaps_lemmas],
        "exhaustive": True,
        "rule": "all ordered pairs of intervals over the chain x 9 element types through partial_cmp and the five "
                "operators; transitivity / antisymmetry of the definition checked on all triples by MC_Interval.",
        "assumptions": TLC_TRUST,
    }


def C14(tier, seed):
    req = ["C14.make_outcome", "C14.wellformed", "C14.predicates", "C14.low_high", "C14.left_right", "C14.as_ref",
           "C14.projection", "C14.tuple", "C14.optpair", "C14.roundtrip", "C14.width", "C14.eq", "C14.hash", "C14.clone_from"]
    st = iv_chain(tier, req + ["C07.range_bounds", "C14.infinite_bounds"])
    st.adopt = {"C07.range_bounds", "C07.range_contains", "C07.range_contains_consistent"}     # Interval -> RangeBounds is a conversion too
    return {
        "stages": [st],
        "exhaustive": True,
        "rule": "every pair of raw bounds (ordered, equal, inverted) through 8 construction paths (4 presence "
                "combinations for the option pair), every accessor / conversion of every interval, equality and hash "
                "of every ordered pair, for 9 element types.",
        "assumptions": TLC_TRUST + ["NaN bounds are outside the property's quantifier"],
    }


def C13(tier, seed):
    box = 4 if tier == "quick" else 6
    st_box = Stage("box", ("Gen_Interval", "Gen_Interval.cfg"), ("Trace_Interval", "Trace_Interval.cfg"),
                   mc=[iv_mc(tier)], env={"FAMILY": "box", "IV_BOX": box},
                   required=["C13.scalar_wellformed", "C13.scalar_kind", "C13.scalar_sound", "C13.scalar_tight",
                             "C13.binary_panic", "C13.binary_wellformed", "C13.binary_kind", "C13.binary_sound",
                             "C13.binary_tight"])
    st_rel3 = Stage("rel3", ("Gen_Interval", "Gen_Interval.cfg"), ("Trace_Interval", "Trace_Interval.cfg"),
                    env={"FAMILY": "rel3"},
                    required=["C13.relative_panic", "C13.relative_kind", "C13.relative_correctly_rounded"])
    st_rel = Stage("rel", ("Gen_Interval", "Gen_Interval.cfg"), ("Trace_Interval", "Trace_Interval.cfg"),
                   env={"FAMILY": "rel"},
                   required=["C13.relative_panic", "C13.relative_wellformed", "C13.relative_sound", "C13.relative_tight", "C13.relative_scale_free"])
    return {
        "stages": [st_box, st_rel, st_rel3],
        "exhaustive": True,
        "rule": "every interval of the three kinds over the integer box -BOX..BOX (BOX=4 quick, 6 thorough) x every scalar "
                "of the box x {+,-,*,/,neg} (i32 truncating division; f64 exact division by +-1,2,4), every ordered pair "
                "for interval+interval / interval-interval (incompatible one-sided pairs must panic), relative_to over "
                "all pairs on the dyadic grid {0,1/2,1,2,4}; soundness / tightness / kind judged by TLC over a window of members.",
        "assumptions": TLC_TRUST + ["membership is quantified over a finite window of the carrier wide enough for the box",
                                   "floats restricted to exactly representable values (no rounding in the judged operations)"],
    }


def C18(tier, seed):
    st = Stage("conf", ("Gen_Confidence", "Gen_Confidence.cfg"), ("Trace_Confidence", "Trace_Confidence.cfg"),
               mc=[("MC_Confidence", "MC_Confidence.cfg", {}, 1), ("MC_BigNum", "MC_BigNum.cfg", {}, 1)],
               env={"RANDOM_LEVELS": 0 if tier == "quick" else 2000},
               required=["C18.make_outcome", "C18.make_value", "C18.make_error", "C18.make_rejects_fallible",
                         "C18.make_rejects_panic", "C18.level", "C18.percent", "C18.kind_string", "C18.predicates",
                         "C18.flipped", "C18.default", "C18.partial_cmp", "C18.operators", "C18.eq"])
    return {
        "stages": [st],
        "exhaustive": tier == "quick",
        "rule": "17 level class representatives (NaN, +-inf, negatives, +-0, smallest subnormal, 1e-300, interior values, "
                "pred(1), 1, succ(1), 2) x 6 construction paths (f32 path sees the converted value); accessors of every valid "
                "(kind, level); all ordered pairs x 3x3 kinds for ordering/equality; thorough adds 2000 random 31-bit levels.",
        "assumptions": TLC_TRUST + ["constructing the public enum variants directly bypasses the constructors by design and is outside the property"],
    }


def C19(tier, seed):
    st_disp = iv_chain(tier, ["C19.display", "C19.display_long_elements"])
    st_apx = Stage("approx", ("Gen_Approx", "Gen_Approx.cfg"), ("Trace_Interval", "Trace_Interval.cfg"),
                   env={"FAMILY": "chain"},
                   required=["C19.kind_aware", "C19.boundwise", "C19.symmetric", "C19.ne_is_negation", "C19.reflexive",
                             "C19.implied_by_eq", "C19.abs_exact", "C19.only_low_near", "C19.only_high_near"])
    return {
        "stages": [st_disp, st_apx],
        "exhaustive": True,
        "rule": "9 kind combinations x independent displacement of each bound (0..3 steps) x tolerances below/at/above each "
                "displacement, for abs_diff_eq / relative_eq / ulps_eq; the interval-level result must equal the kind-aware "
                "conjunction of the element type's own per-bound results (logged), which TLC re-evaluates exactly for the absolute mode; "
                "Display of every interval over the chain for 9 element types.",
        "assumptions": TLC_TRUST + ["the element-level predicates of the approx crate are the reference for relative / ULP modes"],
    }


ACC_REQ = ["C09.outcome", "C09.books", "C09.count", "C09.query_pure", "C09.batch"]


def acc_stage(fl, L, ty="f64", R=2, rich=1, shards=1, req=(), name=None, simulate=None):
    return Stage(name or f"{fl}_{ty}_L{L}", ("Gen_Accum", "Gen_Accum.cfg"), ("Trace_Accum", "Trace_Accum.cfg"),
                 env={"ACC_FL": fl, "ACC_L": L, "ACC_TY": ty, "ACC_R": R, "ACC_RICH": rich},
                 required=list(ACC_REQ) + list(req), shards=shards, simulate=simulate,
                 trace_timeout=3600)


def C09(tier, seed):
    mc = [("MC_Accum", "MC_Accum.cfg", {"ACC_R": 3, "ACC_V": 2, "ACC_K": 3 if tier == "quick" else 4, "ACC_FL": "harm"}, 8)]
    stages = []
    if tier == "quick":
        stages.append(acc_stage("arith", 3, shards=8, req=["C09.act.add", "C09.act.add_assign", "C09.act.clone",
                                                         "C09.act.extend", "C09.act.from_iter", "C09.act.append", "C09.act.new"]))
        stages.append(acc_stage("arith", 2, ty="f32"))
        for fl in ("geo", "harm", "paired", "unpaired", "prop", "quant"):
            stages.append(acc_stage(fl, 2))
    else:
        for fl in ("arith", "geo", "harm", "paired", "unpaired", "prop", "quant"):
            stages.append(acc_stage(fl, 3, shards=8))
        stages.append(acc_stage("arith", 3, ty="f32", shards=8))
        stages.append(acc_stage("arith", 4, rich=0, R=2, shards=8, name="arith_f64_L4"))
        for sim in (acc_stage("unpaired", 30, R=6, name="unpaired_sim", simulate="num=400", shards=8),
                    acc_stage("arith", 40, R=8, name="arith_sim", simulate="num=400", shards=8),
                    acc_stage("harm", 40, R=8, name="harm_sim", simulate="num=300", shards=8)):
            sim.max_cases = 3000            # 3000 programs of 30-40 calls each
            stages.append(sim)
    # every pairwise merge schedule of 4 (5) chunks incl. empty and very unequal ones, and real rayon reductions
    for fl in (("arith", "harm", "prop") if tier == "quick" else ("arith", "geo", "harm", "prop")):
        t = acc_stage(fl, 0, R=4 if tier == "quick" else 5, shards=8, name=f"{fl}_merge_schedules",
                      req=["C09.act.par_reduce", "C09.act.add", "C09.act.add_assign"])
        t.env.update({"ACC_MODE": "trees", "ACC_CHUNKS": 4 if tier == "quick" else 5})
        stages.append(t)
    # long merge histories on data whose sums round, judged against the exact statistics
    fold = mean_stage("c09fold", "C09", ["C09." + c for c in ("bound_lo", "bound_hi", "sample_mean", "sample_variance", "sample_std_dev",
                                                                 "sample_count", "type.f32", "type.f64", "style.lfold1", "style.rfold1",
                                                                 "style.rfold1_assign", "style.lfold7", "style.rfold7", "style.tree",
                                                                 "t_branch", "normal_branch", "magnitude.tiny", "magnitude.large",
                                                                 "beyond_f32_count.extend", "beyond_f32_count.tree", "beyond_f32_count.lfold7")], 1, shards=8)
    stages.append(fold)
    stages[0].mc = mc
    stages[0].required |= {"C09.act.add", "C09.act.add_assign"}
    return {
        "stages": stages + [history_stage()],
        "exhaustive": True,
        "rule": "long merge histories (left / right folds of up to 300 000 (10^6) singleton states with + and +=, folds of chunks of 1..7, balanced trees) on "
                "negative, positive and mixed-sign data whose partial sums round in f32 / f64: sample count, mean, variance, standard deviation and the interval "
                "bounds of the merged state judged by TLC against the exact statistics of the multiset (tolerance model of C01); "
                "TLC enumerates by BFS every program of L calls (quick: L=3 for Arithmetic<f64>, L=2 for the six other flavours and "
                "f32; thorough: L=3 everywhere, L=4 on a reduced alphabet, plus simulated programs of 30-40 calls over 6-8 registers) "
                "over {new, append, extend, from_iter, clone, +=, +} and the flavour-specific feeders, including rejected values, failing "
                "bulk calls and empty operands; every pairwise merge schedule (ordered pairs, `+` and `+=`) of 4 (5) chunks incl. an empty and a large one "
                "(1152 (46080) schedules = every order a parallel reduce can combine them in) and real rayon reductions of 1..40 chunks; after every call every "
                "register is observed twice and compared with the one-shot batch computation on the multiset the specification says it represents. "
                "A program is distinct by its call sequence.",
        "assumptions": TLC_TRUST + ["data are exactly summable small integers (bit-exact comparison); geometric means are compared within 2^-40 relative",
                                   "real thread interleavings of a parallel reduce are not controlled: their possible merge orders are enumerated"],
    }


HARNESS_SERDE = os.path.join(driver.HARNESS_DIR, "target-serde", "release", "verif-harness")


def build_serde_harness(tier, seed, out):
    """pre-hook: (re)build the serde-enabled harness against /repo's current working tree"""
    p = subprocess.run(["cargo", "build", "--release", "--offline", "--features", "serde", "--target-dir", "target-serde"],
                       cwd=driver.HARNESS_DIR, env=dict(os.environ, CARGO_NET_OFFLINE="true"),
                       stdout=subprocess.PIPE, stderr=subprocess.STDOUT, text=True)
    if p.returncode != 0:
        raise driver.ToolError("serde harness build failed:\n" + p.stdout[-3000:])
    driver.log("[build] serde harness ok")


def run_builds(cases_path, trace_path):
    """executor of the C20 build stage: one cargo build per feature set emitted by TLC"""
    scratch = f"/tmp/verif-c20-target-{os.getpid()}"
    evs = []
    try:
        for i, line in enumerate(open(cases_path)):
            c = json.loads(line)
            if c["flags"] == "@harness-serde":
                cmd = ["cargo", "build", "--release", "--offline", "--features", "serde", "--target-dir", "target-serde"]
                cwd = driver.HARNESS_DIR
                env = dict(os.environ, CARGO_NET_OFFLINE="true")
            else:
                cmd = ["cargo", "build", "--offline"] + c["flags"].split()
                cwd = driver.REPO
                env = dict(os.environ, CARGO_NET_OFFLINE="true", CARGO_TARGET_DIR=scratch)
            t0 = time.time()
            p = subprocess.run(cmd, cwd=cwd, env=env, stdout=subprocess.PIPE, stderr=subprocess.STDOUT, text=True)
            errs = [l for l in p.stdout.splitlines() if l.startswith("error")]
            c.update({"id": i + 1, "ok": p.returncode == 0, "err": (errs[0] if errs else "")[:300],
                      "nerr": len(errs), "wall_s": int(time.time() - t0)})
            driver.log(f"[build] {c['name']}: rc={p.returncode} ({time.time()-t0:.1f}s)")
            evs.append(c)
    finally:
        shutil.rmtree(scratch, ignore_errors=True)
    with open(trace_path, "w") as f:
        for e in evs:
            f.write(json.dumps(e) + "\n")


def C20(tier, seed):
    builds = Stage("builds", ("Gen_Build", "Gen_Build.cfg"), ("Trace_Build", "Trace_Build.cfg"),
                   env={"BUILD_MODE": "builds"}, executor=run_builds, stop_on_violation=True,
                   required=["C20.build." + n for n in ("default", "std", "std+approx", "std+serde", "all", "harness+serde")])
    values = Stage("values", ("Gen_Build", "Gen_Build.cfg"), ("Trace_Build", "Trace_Build.cfg"),
                   env={"BUILD_MODE": "values"}, harness_bin=HARNESS_SERDE,
                   required=["C20.value.confidence", "C20.value.interval.f64", "C20.value.interval.i32",
                             "C20.value.interval.String", "C20.value.state.prop", "C20.value.state.unpaired", "C20.value.count_beyond_32_bits"])
    L = 2 if tier == "quick" else 3
    stages = [builds, values]
    for fl in ("arith", "geo", "harm", "paired", "unpaired", "prop"):
        st = acc_stage(fl, L, req=["C20.roundtrip_eq", "C20.twin", "C20.roundtrip." + fl], shards=8,
                       name=f"rt_{fl}_L{L}")
        st.env["ACC_RT"] = 1
        st.harness_bin = HARNESS_SERDE
        st.required -= set(ACC_REQ)
        st.required |= {"C20.roundtrip_eq", "C20.twin"}
        stages.append(st)
    big = acc_stage("arith", 3, ty="f32", rich=0, req=[], shards=8, name="rt_arith_f32_big")
    big.env.update({"ACC_RT": 1, "ACC_BIG": 1})
    big.harness_bin = HARNESS_SERDE
    big.required = {"C20.roundtrip_eq", "C20.twin"}
    stages.append(big)
    # constant samples of an inexact value (0.1, 0.3, 0.7; harmonic 10, 10/3): the restored state must be accepted
    # and equal although its sum of squares is "inconsistent" with its sum by rounding noise
    for fl, ty, d in (("arith", "f64", 1), ("arith", "f64", 7), ("arith", "f32", 3), ("harm", "f64", 1), ("unpaired", "f64", 1), ("geo", "f64", 5)):
        fr = acc_stage(fl, 25, ty=ty, rich=0, R=2, req=[], shards=4, name=f"rt_{fl}_{ty}_frac{d}", simulate="num=%d" % (40 if tier == "quick" else 400))
        fr.env.update({"ACC_RT": 1, "ACC_FRAC": d})
        fr.max_cases = 300 if tier == "quick" else 3000
        fr.harness_bin = HARNESS_SERDE
        fr.required = {"C20.roundtrip_eq", "C20.twin"}
        stages.append(fr)
    # long simulated histories: a dropped or altered compensation term shows only after further accumulation
    for ty, n in (("f32", 150), ("f64", 60)):
        sim = acc_stage("arith", 30, ty=ty, rich=0, R=2, req=[], shards=8, name=f"rt_arith_{ty}_sim", simulate=f"num={n if tier == 'quick' else 10 * n}")
        sim.env.update({"ACC_RT": 1, "ACC_BIG": 1})
        sim.max_cases = 1000 if tier == "quick" else 6000
        sim.harness_bin = HARNESS_SERDE
        sim.required = {"C20.roundtrip_eq", "C20.twin"}
        stages.append(sim)
    return {
        "stages": stages,
        "level": "model_checking",
        "exhaustive": True,
        "rule": "the six cargo feature builds (default, std, std+approx, std+serde, all, and the serde-enabled harness) on /repo's working tree; "
                "serde_json round trips of Confidence (3 kinds x 4 levels) and Interval (3 kinds x f64/i32/String); every program of L calls "
                "(L=2 quick, 3 thorough) of the six serializable statistics with a round trip as an additional action at every position, the "
                "restored state compared (==) with the original and every later observation compared bit-for-bit with a twin history without "
                "round trips; f32 data above 2^24 give non-zero compensation terms.",
        "assumptions": TLC_TRUST + ["the build matrix is a plain enumeration of cargo invocations (TLA+ contributes the configuration set and the judge)",
                                   "round trips go through serde_json; finite data only"],
    }


def C11(tier, seed):
    def st(part, req):
        return Stage(part, ("Gen_Totality", "Gen_Totality.cfg"), ("Trace_Totality", "Trace_Totality.cfg"),
                     env={"PART": part}, required=req, shards=4)
    mean_req = ["C11.no_panic", "C11.ok_allowed", "C11.err_variant", "C11.ok_sane", "C11.ok_kind",
                "C11.class.empty", "C11.class.singleton", "C11.class.constant", "C11.class.extreme", "C11.class.nonfinite",
                "C11.class.TooFewSamples", "C11.class.InvalidInputData", "C11.class.NonPositiveValue",
                "C11.class.DifferentSampleSizes", "C11.harmonic_contains_estimate"] + \
               ["C11.mean." + f for f in ("arith", "geo", "harm", "paired", "unpaired")]
    return {
        "stages": [st("mean", mean_req),
                   st("prop", ["C11.no_panic", "C11.is_significant", "C11.is_significant_k_gt_n", "C11.documented_panic", "C11.stats_new", "C11.prop"]),
                   st("quant", ["C11.no_panic", "C11.quant_ranks", "C11.quant_data", "C11.documented_panic_quantile", "C11.unsorted_input_to_sorted_unchecked"])]
                  # valid input of very large size must not panic either (overflow checks are on)
                  + [edge_stage(tier, ["C02.domain", "C02.no_panic"])] + bigpop_stages(['C02.domain', 'C02.in01', 'C02.no_panic', 'C02.shape'], ['C03.domain', 'C03.in_range', 'C03.kind', 'C03.no_panic']),
        "exhaustive": True,
        "rule": "decision table of module Totality: five mean/comparison producers x call styles x samples of length 0..4 (6 thorough) with one "
                "offending observation (NaN, +-inf, -0, 0, negative, 1e200, 1e-200) at every position, constant and non exactly summable "
                "constant samples, mismatched / short partner samples x 3 kinds x levels {0.001, (0.5), 0.95, 0.9999} x f32/f64; every (n, k) "
                "with k <= n+1 up to 24 (45) through the proportion producers, is_significant, Stats::new; every (n, q) with n <= 16 (40), "
                "q in {-1/8..9/8, NaN, +-inf} through the rank and data level quantile entry points incl. the documented panics; in a build "
                "with overflow checks. A case is distinct by (entry point, style, type, input, confidence).",
        "assumptions": TLC_TRUST + ["representatives of the value classes are fixed (e.g. 3e200 for 'huge')",
                                   "harmonic means: an error is admitted whenever the call is otherwise valid (the reciprocal-space interval may reach 0); C05 decides when it must be Ok"],
    }


def prop_stage(grp, nmax, req, levels="sel", shards=8, big=6):
    return Stage(grp, ("Gen_Proportion", "Gen_Proportion.cfg"), ("Trace_Proportion", "Trace_Proportion.cfg"),
                 env={"GRP": grp, "PROP_N": nmax, "PROP_LEVELS": levels, "PROP_BIG": big}, required=req, shards=shards)


C02_REQ = ["C02.ratio_rounding_tie", "C02.population_beyond_32_bits", "C02.extreme_level.two", "C02.extreme_level.upper", "C02.extreme_level.lower",
           "C02.population_beyond_53_bits.ok", "C02.population_beyond_53_bits.TooFewFailures", "C02.population_beyond_53_bits.TooFewSuccesses", "C02.domain", "C02.no_panic", "C02.shape", "C02.in01", "C02.level_echo", "C02.root_lo", "C02.root_hi",
           "C02.around_estimate", "C02.front_end", "C02.negative_z", "C02.zero_z", "C02.method.wilson", "C02.method.wald",
           "C02.kind.two", "C02.kind.upper", "C02.kind.lower"] + \
          ["C02.front_end." + f for f in ("ci", "ci_wilson_ratio", "ci_true", "ci_if", "stats_new", "stats_from_iter", "stats_extend", "stats_extend_if", "stats_add", "stats_mixed")] + \
          ["C02.domain.%s.%s" % (d, m) for d in ("ok", "TooFewSuccesses", "TooFewFailures", "InvalidSuccesses") for m in ("wilson", "wald")]
TABLES_MC = [("MC_Tables", "MC_Tables.cfg", {}, 1), ("MC_BigNum", "MC_BigNum.cfg", {}, 1)]
NUM_TRUST = TLC_TRUST + ["the mpmath-generated quantile tables (spec/tables; axioms checked by MC_Tables in exact arithmetic)",
                         "the BigInteger accelerators of the exact kernel (checked against the TLA+ definitions by MC_BigNum)"]


def edge_stage(tier, adopt):
    """the edge of the documented domain of the proportion intervals for every population up to 2000 (20 000)"""
    st = Stage("edge", ("Gen_Proportion", "Gen_Proportion.cfg"), ("Trace_Proportion", "Trace_Proportion.cfg"),
               env={"GRP": "edge", "PROP_N": 0, "PROP_LEVELS": "sel", "PROP_BIG": 0, "PROP_EDGE": 2000 if tier == "quick" else 20000}, shards=8,
               required=["C02.domain.ok.wilson", "C02.domain.TooFewSuccesses.wilson", "C02.domain.TooFewFailures.wilson",
                         "C02.domain.ok.wald", "C02.domain.TooFewSuccesses.wald", "C02.domain.TooFewFailures.wald", "C02.front_end.ci"])
    st.adopt = set(adopt)
    return st


def bigpop_stages(adopt_prop, adopt_quant):
    """populations beyond 2^32 through the count-based proportion entry points and the index-only quantile entry points"""
    bp = Stage("bigpop", ("Gen_Proportion", "Gen_Proportion.cfg"), ("Trace_Proportion", "Trace_Proportion.cfg"),
               env={"GRP": "big", "PROP_N": 0, "PROP_LEVELS": "sel", "PROP_BIG": 0}, shards=2,
               required=["C02.population_beyond_32_bits", "C02.root_lo", "C02.root_hi", "C02.no_panic", "C02.extreme_level.two", "C02.extreme_level.upper",
                         "C02.extreme_level.lower", "C02.population_beyond_53_bits.ok", "C02.population_beyond_53_bits.TooFewFailures",
                         "C02.population_beyond_53_bits.TooFewSuccesses"])
    bp.adopt = set(adopt_prop)
    bq = Stage("bigpopq", ("Gen_Quantile", "Gen_Quantile.cfg"), ("Trace_Quantile", "Trace_Quantile.cfg"),
               env={"PART": "big"}, shards=1, required=["C03.population_beyond_32_bits", "C03.no_panic", "C03.in_range"])
    bq.adopt = set(adopt_quant)
    return [bp, bq]


def C02(tier, seed):
    st = prop_stage("row", 40 if tier == "quick" else 130, C02_REQ, levels="sel" if tier == "quick" else "all")
    st.mc = list(TABLES_MC)
    own = own_stage("W", "Trace_Proportion", ["C02.root_lo", "C02.root_hi", "C02.domain"])
    return {
        "stages": [st, own, history_stage(), edge_stage(tier, [])],
        "exhaustive": True,
        "rule": "every ci_wilson / ci_z_normal call made by the repository's OWN test-suite (about 18 000 calls of the Monte-Carlo accuracy test, "
                "recorded by the guarded hook) through the same root-enclosure judge; "
                "every (n, k) with 0 <= k <= n+1 for n <= 40 (130 thorough) x 9 (17) levels x 3 kinds x {Wilson, Wald}, plus 6 large "
                "populations up to 10^7 with boundary and TLC-drawn k; at two-sided/one-sided 0.95 every (n, k) additionally through 8 front-ends. "
                "Each returned bound is accepted only if the score (Wald) polynomial changes sign within 2^-46 of it for every z^2 of the "
                "reference enclosure (exact dyadic arithmetic); outcome class must be exactly the documented domain.",
        "assumptions": NUM_TRUST,
    }


def C17(tier, seed):
    n = 40 if tier == "quick" else 130
    lv = "sel" if tier == "quick" else "all"
    row = prop_stage("row", n, ["C17.monotone_in_k", "C17.mirror", "C17.mirror.two", "C17.mirror.lower", "C17.in01", "C17.midpoint", "C17.entry_points_agree", "C17.entry_points_agree.large_population"], levels=lv)
    row.mc = list(TABLES_MC)
    row.adopt = {"C02.root_lo", "C02.root_hi", "C02.no_panic"}     # the laws are those of the Wilson / Wald roots at the true z
    return {
        "stages": [row,
                   prop_stage("mult", n, ["C17.shrinks_with_n"]),
                   prop_stage("levels", n, ["C17.wider_with_level"]), history_stage(),
                   # the admissible domain is mirror-symmetric (k successes <-> k failures) for every population
                   edge_stage(tier, ["C02.domain", "C02.no_panic", "C02.front_end", "C02.root_lo", "C02.root_hi"])] + bigpop_stages(['C02.domain', 'C02.front_end', 'C02.in01', 'C02.no_panic', 'C02.root_hi', 'C02.root_lo', 'C02.shape'], [])[:1],
        "exhaustive": True,
        "rule": "relations over the recorded table (n, k) -> interval: for every n <= 40 (130) and confidence, consecutive k (monotone), "
                "k vs n-k within two-sided rows and between upper and lower rows (mirror, 2^-50), midpoint between k/n and 1/2; "
                "multipliers m in {1,2,3,10,100} (strictly narrower two-sided intervals, one-sided bound moves towards k/n); all 19 levels "
                "ascending (nested, strictly wider two-sided). Wilson and Wald.",
        "assumptions": NUM_TRUST,
    }


def C03(tier, seed):
    def st(part, req, env, shards=8):
        e = {"PART": part}
        e.update(env)
        return Stage(part, ("Gen_Quantile", "Gen_Quantile.cfg"), ("Trace_Quantile", "Trace_Quantile.cfg"),
                     env=e, required=req, shards=shards)
    q = tier == "quick"
    ranks = st("ranks", ["C03.no_panic", "C03.domain", "C03.kind", "C03.in_range", "C03.ranks", "C03.brackets",
                         "C03.entry_points_agree", "C03.population_beyond_32_bits", "C03.product_observed", "C03.index", "C03.rounding_boundary",
                         "C03.rejects.TooFewSamples", "C03.rejects.InvalidQuantile", "C03.rejects.TooFewSuccesses",
                         "C03.rejects.TooFewFailures", "C03.kind.two", "C03.kind.upper", "C03.kind.lower"],
               {"Q_N": 70 if q else 400})
    ranks.mc = [("MC_BigNum", "MC_BigNum.cfg", {}, 1)]
    perm = st("perm", ["C03.data_outcome", "C03.data_elements"] + ["C03.entry." + x for x in ("ci", "sorted", "max_n", "max_1024")]
              + ["C03.type." + x for x in ("i32", "f64", "char", "str")], {"P_N": 6 if q else 7})
    shuf = st("shuffle", ["C03.data_outcome", "C03.data_elements", "C03.distinct_values_shuffled", "C03.capacity_above_default", "C03.entry.ci_sparse"], {"Q_SHUFFLES": 60 if q else 600}, shards=4)
    own = own_stage("Q", "Trace_Quantile", ["C03.ranks", "C03.domain"])
    own.shards = 1
    return {
        # the Wilson bounds behind the ranks at confidence levels far outside the grid (the ranks themselves are judged against them)
        "stages": [ranks, perm, shuf, own, history_stage()] + bigpop_stages(['C02.domain', 'C02.in01', 'C02.no_panic', 'C02.root_hi', 'C02.root_lo', 'C02.shape', 'C02.level_echo'], [])[:1],
        "exhaustive": True,
        "rule": "ranks: every n in 0..70 (400) x 35 dyadic quantiles (incl. 0, 1, outside [0,1]) + products at half-integers and their float "
                "neighbours + NaN x 5 levels x 3 kinds through ci_indices, Stats::ci, Stats::index; data: EVERY permutation of 4 multiset shapes "
                "(ties) of size 4..6 (7) through quantile::ci and a rotating entry point / element type, seeded shuffles of samples up to 1007 "
                "elements through ci, ci_sorted_unchecked, ci_max_size for i32/f64/char/&str. Ranks are judged against floor(p n) of the crate's own "
                "Wilson bounds (C02 decides those) with exact float modelling; elements against the sorted bag.",
        "assumptions": NUM_TRUST[:2] + ["the Wilson bounds used for the ranks are the crate's own (validated by C02)", NUM_TRUST[3]],
    }


def C12(tier, seed):
    def st(part, req):
        return Stage(part, ("Gen_Coverage", "Gen_Coverage.cfg"), ("Trace_Coverage", "Trace_Coverage.cfg"),
                     env={"PART": part}, required=req, shards=6)
    prop = st("prop", ["C12.prop_row", "C12.prop_pointwise", "C12.prop_mean"])
    prop.mc = [("MC_Binomial", "MC_Binomial.cfg", {}, 1), ("MC_BigNum", "MC_BigNum.cfg", {}, 1)]
    # the coverage statement is about the VALUES returned: they must be the order statistics at the ranks whose coverage is summed
    vals = Stage("shuffle", ("Gen_Quantile", "Gen_Quantile.cfg"), ("Trace_Quantile", "Trace_Quantile.cfg"),
                 env={"PART": "shuffle", "Q_SHUFFLES": 40 if tier == "quick" else 400}, shards=4,
                 required=["C03.data_outcome", "C03.data_elements", "C03.distinct_values_shuffled"])
    vals.adopt = {"C03.data_outcome", "C03.data_elements", "C03.no_panic"}
    # ... and every proportion entry point must return the interval whose coverage is summed
    fronts = Stage("fronts", ("Gen_Proportion", "Gen_Proportion.cfg"), ("Trace_Proportion", "Trace_Proportion.cfg"),
                   env={"GRP": "fronts", "PROP_N": 0, "PROP_LEVELS": "sel", "PROP_BIG": 0}, shards=6,
                   required=["C02.front_end", "C02.front_end.ci", "C02.front_end.ci_wilson_ratio", "C02.front_end.stats_new"])
    fronts.adopt = {"C02.front_end", "C02.no_panic", "C02.domain", "C02.root_lo", "C02.root_hi", "C02.shape"}    # (level 0.2 as well: negative z)
    return {
        # beyond the sizes whose binomial can be summed: the Wilson interval is the root pair of the score equation (its coverage is
        # then the nominal one) and the ranks stay within 4 sqrt(n) of round(q n)
        "stages": [prop, st("quant", ["C12.quant_pointwise", "C12.quant_mean", "C12.quant_extreme_floor"]), vals, fronts]
                  + bigpop_stages(['C02.domain', 'C02.front_end', 'C02.in01', 'C02.no_panic', 'C02.root_hi', 'C02.root_lo', 'C02.shape'], ['C03.brackets', 'C03.domain', 'C03.entry_points_agree', 'C03.in_range', 'C03.kind', 'C03.no_panic', 'C03.ranks']),
        "exhaustive": True,
        "rule": "n in {20,30,50,100,200} (+400,1000,2000 thorough) x levels {0.8,0.9,0.95,0.99} x 3 kinds: the interval of EVERY k (resp. the "
                "rank interval of every q = a/200) is recorded; for every grid point p = a/200 with n p, n(1-p) >= 10 the exact binomial coverage "
                "is summed over all outcomes k by TLC (integers of thousands of bits) and compared with the nominal level: pointwise "
                "(L - cov) sqrt(m) <= C(L, kind) and |mean - L| <= MeanSlack(n). Non-trivial = every grid point (distinct acceptance sets).",
        "assumptions": NUM_TRUST[:2] + [NUM_TRUST[3], "the slack constants C(L, kind) and MeanSlack(n) are part of the specification, calibrated against the mathematical "
                                                     "Wilson interval (DESIGN.md section 4, C12)"],
    }


def mean_stage(part, prop, req, sets, shards=8):
    return Stage(part, ("Gen_Mean", "Gen_Mean.cfg"), ("Trace_Mean", "Trace_Mean.cfg"),
                 env={"PART": part, "MEAN_SETS": sets}, required=req, shards=shards)


def arith_req(P):
    return [P + "." + c for c in ("no_panic", "level_echo", "shape", "bound_lo", "bound_hi", "sample_mean", "sample_variance",
                                  "sample_std_dev", "sample_count", "type.f64", "type.f32", "kind.two", "kind.upper", "kind.lower",
                                  "negative_critical_value", "t_branch", "switch_zone", "normal_branch", "small_n")]


OWN_TARGET = os.path.join(driver.WORK, "own-tests-target")


def own_tests_executor(want):
    """run the repository's own test-suite with the guarded hooks on and convert the records of kind `want`"""
    def run(cases_path, trace_path):
        import hooktrace
        raw = os.path.join(driver.WORK, f"own.{os.getpid()}.raw")
        if os.path.exists(raw):
            os.remove(raw)
        env = dict(os.environ, CARGO_NET_OFFLINE="true", CARGO_TARGET_DIR=OWN_TARGET,
                   RUSTFLAGS="--cfg stats_ci_verif", STATS_CI_TRACE=raw)
        t0 = time.time()
        p = subprocess.run(["cargo", "test", "--workspace", "--no-fail-fast", "--offline", "--lib", "--tests"],
                           cwd=driver.REPO, env=env, stdout=subprocess.PIPE, stderr=subprocess.STDOUT, text=True)
        driver.log(f"[own-tests] cargo test with hooks rc={p.returncode} ({time.time()-t0:.1f}s)")
        if not os.path.exists(raw):
            raise driver.ToolError("the hooked test run recorded nothing:\n" + p.stdout[-2000:])
        evs, stats = hooktrace.convert(raw, os.path.join(driver.SPEC, "tables"), want)
        os.remove(raw)
        driver.log(f"[own-tests] {want}: {stats}")
        if not evs:
            raise driver.ToolError(f"no {want} records in the hooked test run")
        with open(trace_path, "w") as f:
            for e in evs:
                f.write(json.dumps(e, separators=(",", ":")) + "\n")
    return run


def own_stage(want, trace, req):
    return Stage("own_tests", None, (trace, trace + ".cfg"), env={"FAMILY": "chain"}, executor=own_tests_executor(want),
                 required=req, shards=8)


def C01(tier, seed):
    st = mean_stage("c01", "C01", arith_req("C01") + ["C01.call_styles_agree", "C01.constant_sample", "C01.style.ci", "C01.style.ci_sparse", "C01.style.extend",
                                                    "C01.style.append", "C01.style.meanci", "C01.zero_observation", "C01.squares_overflow", "C01.count_beyond_32_bits"], 40 if tier == "quick" else 400)
    st.mc = list(TABLES_MC)
    own = own_stage("M", "Trace_Hook", ["C01.own_tests_kind", "C01.own_tests_bound"])
    return {
        "stages": [st, own, history_stage()],
        "exhaustive": False,
        "rule": "every Arithmetic::ci_mean call made by the repository's OWN test-suite (about 30 000, recorded by the guarded hook) judged against "
                "the interval formula on the statistics it was computed from; "
                "40 (400) seeded random run-length samples (n in 2..301, offsets, dyadic scalings 2^-20..2^20, duplicates, mixed signs) + 6 special "
                "shapes + large n as blocks on both sides of the t->z switch (up to 10^6) x 6 (17) levels x 3 kinds x f32/f64 x 4 (6) call styles. "
                "TLC computes the exact mean / variance of every sample and accepts a bound b only if (n b - S1)^2 (n-1) = c^2 V within the "
                "tolerance model, c^2 over the reference enclosure of the t / normal quantile, with the sign of c. Distinct = (sample, confidence, type, style).",
        "assumptions": NUM_TRUST + ["tolerance model of DESIGN.md 3.7 (conditioning-aware); data generated inside the conditioning domain kappa*u <= 2^-10"],
    }


def c06_designed():
    d = mean_stage("designed", "C06", ["C06.real_dof_critical_value"], 0, shards=1)
    d.harness_env = {"HARNESS_THREADS": 1}
    return d


def C06(tier, seed):
    st = mean_stage("c06", "C06", arith_req("C06") + ["C04.unpaired_small_dof_large_population", "C06.even_dof_closed_form", "C06.count_beyond_32_bits", "C06.extreme_level.upper", "C06.off_grid_level.two", "C06.off_grid_level.lower"], 0)
    st.adopt = {"C04.unpaired_bound", "C04.shape", "C04.domain", "C04.exchange_mirrors"}    # the critical value of the unpaired comparison at a small effective dof
    # even-dof rows of the t table certified from the algebraic closed form of the distribution function
    st.mc = list(TABLES_MC) + [("MC_TCert", "MC_TCert.cfg", {"TCERT_MAX": 80 if tier == "quick" else 300}, 4)]
    zrow = prop_stage("row", 30 if tier == "quick" else 60, ["C02.root_lo", "C02.root_hi", "C02.negative_z", "C02.zero_z"], levels="all")
    zrow.adopt = {"C02.root_lo", "C02.root_hi"}       # the z implied by a Wilson / Wald bound
    # query - update - query histories of the comparison state (every program of 2 (3) calls, incl. updates through stats_a_mut)
    c06_hist = acc_stage("unpaired", 2 if tier == "quick" else 3, shards=8, name="history_unpaired")
    c06_hist.adopt = set(ACC_REQ)
    return {
        "stages": [st, c06_designed(), zrow, history_stage(), c06_hist],
        "exhaustive": True,
        "rule": "symmetric probe samples (+-1, exact standard error 1/sqrt(n-1)) for 150 (all 430) degrees-of-freedom rows of the reference table "
                "(every integer 1..120 (300), log-spaced up to 99 999) and n beyond the switch x all 19 levels x 3 kinds: the implied critical value "
                "must lie in the certified enclosure of the true t / normal quantile (relative allowance 2^-29 .. 2^-12 by nu); 12 designed unpaired "
                "pairs with non-integer effective dof against the t quantile at that real dof, executed back to back on one thread. The z implied by "
                "proportion intervals is decided by the root enclosure of C02 (same validator, all 19 levels).",
        "assumptions": NUM_TRUST + ["quantiles are checked at the tabulated (nu, level) pairs only",
                                   "table rows with even dof <= 80 (300) are certified inside TLC from the algebraic closed form of the t distribution "
                                   "function (MC_TCert, exact arithmetic); odd rows are bracketed by them through the monotonicity checked by MC_Tables; "
                                   "rows beyond and the normal quantile rest on mpmath"],
    }


def C04(tier, seed):
    st = mean_stage("c04", "C04", ["C04.no_panic", "C04.different_sizes", "C04.shape", "C04.paired_bound", "C04.paired_is_arith_of_differences",
                                   "C04.unpaired_bound", "C04.unpaired_bound_evaluated", "C04.unpaired_integer_nu", "C04.unpaired_bracketed_nu",
                                   "C04.exchange_mirrors", "C04.call_styles_agree", "C04.unpaired_family_0", "C04.unpaired_family_1",
                                   "C04.unpaired_family_2", "C04.paired.ci_sparse", "C04.unpaired.ci_sparse", "C04.unpaired.mut"], 30 if tier == "quick" else 300)
    st.mc = list(TABLES_MC)
    designed = mean_stage("designed", "C04", ["C04.designed_dof", "C04.real_dof_critical_value", "C04.exchange_mirrors"], 0, shards=1)
    designed.harness_env = {"HARNESS_THREADS": 1}      # consecutive calls on one thread, in generator order
    # feeding histories of the two comparison states (every program of 2 (3) calls, incl. unequal bulk lengths after earlier
    # pairs): the state is the multiset of pairs delivered, errors carry the lengths of the offending call
    hist = []
    for fl in ("paired", "unpaired"):
        a = acc_stage(fl, 2 if tier == "quick" else 3, shards=8, name=f"history_{fl}",
                      req=["C09.rejected.DifferentSampleSizes"] if fl == "paired" else [])
        a.adopt = set(ACC_REQ)
        hist.append(a)
    return {
        "stages": [st, designed] + hist + [history_stage()],
        "exhaustive": False,
        "rule": "12 designed sample pairs with non-integer effective dof (1.9 .. 20.2; neighbours share the integer part) x 19 levels x 3 kinds, each "
                "also exchanged, executed back to back on one thread and judged against the t quantile at that REAL dof (table rows generated for "
                "the exact rational dof, which TLC re-derives from the samples); "
                "30 (300) seeded paired samples (n 2..150, explicit aligned sequences) through 3 (4) feeding styles, unequal lengths in both directions; "
                "30 (300) unpaired sample pairs in three families (one constant sample: nu = na-1; equal spread and size: nu = 2n; random: nu bracketed "
                "by floor/ceil rows of the t table) through 4 (8) feeding styles, each also with the samples exchanged (must mirror bit for bit with "
                "upper and lower exchanged) x 6 levels x 3 kinds x f32/f64.",
        "assumptions": NUM_TRUST + ["unpaired critical value at non-integer effective dof is bracketed between the neighbouring integer rows"],
    }


def C05(tier, seed):
    st = mean_stage("c05", "C05", ["C05.no_panic", "C05.geo_outcome", "C05.geo_bounds", "C05.geo_mean", "C05.geo_sem", "C05.mean_inequality",
                                   "C05.harm_outcome", "C05.harm_bounds", "C05.harm_mean", "C05.harm_sem", "C05.harm_straddle_rejected", "C05.subnormal_data_accepted",
                                   "C05.call_styles_agree", "C05.kind.two", "C05.kind.upper", "C05.kind.lower"], 30 if tier == "quick" else 300)
    rej = []
    for fl in ("geo", "harm"):
        a = acc_stage(fl, 2 if tier == "quick" else 3, req=["C05.rejected_with_value", "C05.rejection_keeps_state", "C05.rejected." + fl],
                      shards=8, name=f"reject_{fl}")
        a.required -= set(ACC_REQ)
        # whatever the feeding history, the state is the multiset delivered: the interval is the transform of the
        # arithmetic interval of ALL logarithms / reciprocals
        a.adopt = set(ACC_REQ)
        rej.append(a)
    return {
        "stages": [st] + rej + [history_stage()],
        "exhaustive": False,
        "rule": "30 (300) seeded strictly positive samples (wide dynamic range, powers of two, near-constant, straddling) x 6 (17) levels x 3 kinds x "
                "f32/f64: the geometric / harmonic interval, mean and standard error must be the documented transforms of the crate's own arithmetic "
                "results in log / reciprocal space (exp sampled as an uninterpreted function, reciprocals checked exactly, 4-8 ulp), H <= G <= A; "
                "every program of 2 (3) calls over geo / harm registers with non-positive values (0, -0, -1, -inf) at every position: rejected with "
                "NonPositiveValue carrying the value, state unchanged (or the admissible prefix for a bulk call).",
        "assumptions": TLC_TRUST + ["ln and exp are uninterpreted: the harness samples them with the same float functions the crate calls",
                                   "the arithmetic-mean interval in the transformed space is the crate's own (decided by C01)"],
    }


def rel_stage(part, req, sets, shards=8):
    return Stage(part, ("Gen_Relate", "Gen_Relate.cfg"), ("Trace_Relate", "Trace_Relate.cfg"),
                 env={"PART": part, "REL_SETS": sets}, required=req, shards=shards)


def history_stage():
    """call histories on one thread (same level / other kind, nearly equal quantile arguments, degrees of freedom with the same integer
    part): every call is repeated on a fresh thread and must give the same answer"""
    h = rel_stage("hist", ["C10.history_independent", "C10.history.prop.ci", "C10.history.quant.ranks", "C10.history.mean.ci"], 0, shards=1)
    h.harness_env = {"HARNESS_THREADS": 1}
    h.adopt = {"C10.history_independent", "C10.no_panic"}
    return h


def C10(tier, seed):
    producers = ["arith", "geo", "harm", "paired", "unpaired", "proportion_ci", "proportion_ci_z_normal", "quantile"]
    st = rel_stage("c10", ["C10.kind", "C10.nesting", "C10.one_sided_equals_two_sided", "C10.contains_estimate",
                           "C10.kind.two", "C10.kind.upper", "C10.kind.lower", "C10.rejected.harm"]
                   + ["C10.producer." + p for p in producers] + ["C10.one_two." + p for p in producers],
                   6 if tier == "quick" else 60)
    st.mc = [("MC_Tables", "MC_Tables.cfg", {}, 1)]
    seq = rel_stage("c10seq", ["C10.kind", "C10.nesting", "C10.one_sided_equals_two_sided", "C10.contains_estimate"], 2 if tier == "quick" else 12, shards=1)
    seq.harness_env = {"HARNESS_THREADS": 1}
    extra = rel_stage("c10extra", ["C10.kind", "C10.nesting", "C10.one_sided_equals_two_sided", "C10.constant_sample.upper", "C10.constant_sample.lower"]
                      + ["C10.producer.quantile_data_" + e for e in ("ci", "sorted", "max_n", "max_1024")], 0, shards=8)
    return {
        "stages": [st, seq, extra, history_stage()],
        "exhaustive": False,
        "rule": "the same groups in the other loop order (level outside, kind inside) executed back to back on one thread, so that consecutive calls "
                "share level and degrees of freedom and differ in the kind only; "
                "for each of the seven producers (arithmetic, geometric, harmonic incl. samples whose reciprocal-space interval reaches 0, paired, "
                "unpaired, proportion Wilson + Wald, quantile ranks) and each input (6 (60) seeded samples x f32/f64; (n,k) grids; n in 4..40 (60) x 4 "
                "quantiles): one group of 51 calls (3 kinds x 19 levels). The validator carries the table (kind, level) -> bounds and checks on every call: "
                "kind of the result, nesting with the previous level, one-sided(L) = two-sided(2L-1) (2^-30 relative; exact for ranks), estimate inside.",
        "assumptions": TLC_TRUST + ["quantile bracketing of the sample-quantile rank is decided by C03"],
    }


def C16(tier, seed):
    st = rel_stage("c16", ["C16.scale_exact", "C16.scale_rounding", "C16.negation_mirrors", "C16.neg_one_sided", "C16.shift", "C16.reorder",
                           "C16.reorder.f32", "C16.reorder.f64", "C16.reorder_long_stream.f32", "C16.reorder_long_stream.f64"]
                   + ["C16.scale." + f for f in ("arith", "paired", "unpaired", "geo", "harm")]
                   + ["C16.neg." + f for f in ("arith", "paired", "unpaired")] + ["C16.shift." + f for f in ("arith", "paired", "unpaired")],
                   5 if tier == "quick" else 60)
    # unpaired pairs whose effective dof share their integer part, back to back on one thread: the critical value must follow the real dof
    c16_designed = mean_stage("designed", "C16", ["C04.designed_dof", "C04.real_dof_critical_value", "C04.exchange_mirrors"], 0, shards=1)
    c16_designed.harness_env = {"HARNESS_THREADS": 1}
    c16_designed.adopt = {"C04.real_dof_critical_value", "C04.exchange_mirrors", "C04.history_independent", "C04.shape"}
    return {
        "stages": [st, c16_designed, history_stage()],
        "exhaustive": False,
        "rule": "5 (60) seeded base samples per producer x f32/f64 x 4 levels x 3 kinds, each with: scaling by 2^k, k in {-40,-7,-1,1,10,60} restricted to "
                "exponents that avoid overflow/underflow in the type (bit-exact: same mantissa and sign, exponent + k; geometric: rounding allowance), "
                "negation with the mirrored kind (bit-exact, ends exchanged), shifts {3,-1000,65536}, reorderings (desc, interleave, 2 seeded shuffles); "
                "every permutation of samples of size 3..5; streams of 10^5 (10^6) observations in four orders for f32 and f64.",
        "assumptions": TLC_TRUST + ["reordering / shift tolerances: 64 ulp resp. 2^10 u (|b| + |b'| + |shift|) for the generated well-conditioned samples"],
    }


def C08(tier, seed):
    q = tier == "quick"
    bfs = Stage("bfs", ("Gen_Kahan", "Gen_Kahan.cfg"), ("Trace_Kahan", "Trace_Kahan.cfg"),
                env={"PART": "bfs", "KAHAN_LEN": 3 if q else 4}, shards=8,
                required=["C08.error_bound", "C08.value_semantics", "C08.act.add", "C08.act.merge", "C08.act.merge_by_plus",
                          "C08.type.f32", "C08.type.f64"],
                mc=[("MC_Kahan", "MC_Kahan.cfg", {"KAHAN_LEN": 5 if q else 7, "KAHAN_ALPHA": 12 if q else 8}, 8),
                    ("MC_BigNum", "MC_BigNum.cfg", {}, 1)])
    streams = Stage("streams", ("Gen_Kahan", "Gen_Kahan.cfg"), ("Trace_Kahan", "Trace_Kahan.cfg"),
                    env={"PART": "streams"},
                    required=["C08.error_bound", "C08.long_stream.f32", "C08.long_stream.f64", "C08.merge_tree",
                              "C08.statistics_inherit", "C08.statistics.f32", "C08.statistics.f64", "C08.statistics_fed_by.rfold1_assign", "C08.statistics_fed_by.tree", "C08.statistics_fed_by.extend4", "C08.fold_of_absorbed_registers.f32", "C08.fold_of_absorbed_registers.f64", "C08.act.add_block", "C08.act.add_cycle",
                              "C08.long_lfold.f32", "C08.long_rfold.f32", "C08.long_lfold.f64", "C08.long_rfold.f64",
                              "C08.long_lfold_plus.f32", "C08.long_rfold_plus.f32", "C08.long_lfold_plus.f64", "C08.long_rfold_plus.f64",
                              "C08.negative_sum_stream", "C08.tiny_magnitude_stream.f32", "C08.tiny_magnitude_stream.f64"])
    # registers that pass through a serialization round trip in the middle of a long accumulation (f32 data above 2^24: the
    # compensation terms are non-zero) must go on accumulating as if nothing had happened
    rts = []
    for ty, n in (("f32", 150), ("f64", 60)):
        sim = acc_stage("arith", 30, ty=ty, rich=0, R=2, req=[], shards=8, name=f"rt_arith_{ty}_sim", simulate=f"num={n if q else 10 * n}")
        sim.env.update({"ACC_RT": 1, "ACC_BIG": 1})
        sim.max_cases = 600 if q else 6000
        sim.harness_bin = HARNESS_SERDE
        sim.required = {"C20.roundtrip_eq", "C20.twin"}
        sim.adopt = {"C20.roundtrip_eq", "C20.twin"}
        rts.append(sim)
    return {
        "pre": [build_serde_harness],
        "stages": [bfs, streams] + rts,
        "exhaustive": True,
        "rule": "model: every sequence of up to 5 (7) additions of an adversarial alphabet (values straddling 2^24, cancelling pairs, mixed magnitudes) "
                "into two registers with merges at any point, in an exact binary32-over-integers model: |value - exact| <= 16 u sum|x| in every state. "
                "Conformance: every program of 3 (4) steps of that machine on KahanSum<f32> and <f64> (AddAssign<T>, AddAssign<Self>, Add<Self>), and long "
                "streams as block/cycle descriptors (10^6 (10^7) terms in f32, 10^5 (10^6) in f64: small increments over 2^24, cancelling cycles, mixed "
                "magnitudes, 16-register merge trees with non-zero compensation, left folds) plus the same streams through Arithmetic; after every step TLC "
                "compares value() with the exact sum it carries.",
        "assumptions": TLC_TRUST + ["the constant 16 is established on the reference model for the explored shapes (DESIGN.md section 4, C08)",
                                   "the pure-integer f32 model is limited to |sum| <= 2^30; the trace validator uses the arbitrary-precision kernel"],
    }


REGISTRY = {"C08": C08, "C10": C10, "C16": C16, "C01": C01, "C04": C04, "C05": C05, "C06": C06, "C12": C12, "C03": C03, "C02": C02, "C17": C17, "C11": C11, "C20": C20, "C09": C09, "C19": C19, "C18": C18, "C13": C13, "C07": C07, "C14": C14, "C15": C15}
