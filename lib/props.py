"""Registry: property id -> stages (generator / validator pairs and model-level runs)."""
from driver import Stage

TLC_TRUST = ["TLC 1.8.0 and its Json/IOUtils modules",
             "the harness executes the entry point named in each event and encodes values faithfully"]


def iv_mc(tier):
    box = 2 if tier == "quick" else 3
    return ("MC_Interval", "MC_Interval.cfg", {"IV_BOX": box}, 8)


def iv_chain(tier, required):
    n = 5 if tier == "quick" else 7
    return Stage("chain", ("Gen_Interval", "Gen_Interval.cfg"), ("Trace_Interval", "Trace_Interval.cfg"),
                 mc=[iv_mc(tier)], env={"FAMILY": "chain", "IV_N": n}, required=required)


def C07(tier, seed):
    req = ["C07.contains", "C07.range_contains", "C07.range_bounds", "C07.range_contains_consistent",
           "C07.intersects", "C07.includes", "C07.is_included_in"]
    return {
        "stages": [iv_chain(tier, req)],
        "exhaustive": True,
        "rule": "TLC enumerates every ordered pair of well-formed intervals (3 kinds) over a chain of N bound "
                "positions (N=5 quick, 7 thorough) plus two outer witnesses, and every (interval, probe) pair; "
                "each case is executed for 9 element types (i32, i8, u8, f64 with +0/-0/infinite probes, char, String). "
                "A case is distinct by (operation, type, operands); all are non-trivial.",
        "assumptions": TLC_TRUST + ["float intervals with NaN or infinite *bounds* are outside the property's closed-set reading"],
    }


def C15(tier, seed):
    return {
        "stages": [iv_chain(tier, ["C15.partial_cmp", "C15.operators", "C15.eq_consistent"])],
        "exhaustive": True,
        "rule": "all ordered pairs of intervals over the chain x 9 element types through partial_cmp and the five "
                "operators; transitivity / antisymmetry of the definition checked on all triples by MC_Interval.",
        "assumptions": TLC_TRUST,
    }


def C14(tier, seed):
    req = ["C14.make_outcome", "C14.wellformed", "C14.predicates", "C14.low_high", "C14.left_right", "C14.as_ref",
           "C14.projection", "C14.tuple", "C14.optpair", "C14.roundtrip", "C14.width", "C14.eq", "C14.hash"]
    return {
        "stages": [iv_chain(tier, req)],
        "exhaustive": True,
        "rule": "every pair of raw bounds (ordered, equal, inverted) through 8 construction paths (4 presence "
                "combinations for the option pair), every accessor / conversion of every interval, equality and hash "
                "of every ordered pair, for 9 element types.",
        "assumptions": TLC_TRUST + ["NaN bounds are outside the property's quantifier"],
    }


REGISTRY = {"C07": C07, "C14": C14, "C15": C15}
