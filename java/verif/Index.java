package verif;

import tlc2.overrides.ITLCOverrides;

/** Registers the Java accelerators of the exact arithmetic kernel (spec/BigNum.tla). */
public class Index implements ITLCOverrides {
    @SuppressWarnings("rawtypes")
    @Override
    public Class[] get() {
        return new Class[] { BigNumOverrides.class };
    }
}
