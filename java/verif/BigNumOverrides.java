package verif;

import java.math.BigInteger;

import tlc2.overrides.TLAPlusOperator;
import tlc2.value.impl.IntValue;
import tlc2.value.impl.TupleValue;
import tlc2.value.impl.Value;

/**
 * java.math.BigInteger accelerators for the operators BigAdd/BigSub/BigMul/BigCmp/BigShl of
 * module BigNum.  Representation: <<sign, limbs>> with little-endian limbs base 2^15, canonical.
 * Nothing but arithmetic lives here: every formula, tolerance and verdict is TLA+.
 * MC_BigNum checks override = TLA+ definition.
 */
public class BigNumOverrides {
    private static final int LB = 15;
    private static final int MASK = (1 << LB) - 1;
    private static final boolean SABOTAGE = System.getenv("VERIF_SABOTAGE_KERNEL") != null;

    static BigInteger toBig(final Value v) {
        final TupleValue t = (TupleValue) v.toTuple();
        final int s = ((IntValue) t.elems[0]).val;
        if (s == 0) {
            return BigInteger.ZERO;
        }
        final Value[] limbs = ((TupleValue) t.elems[1].toTuple()).elems;
        // assemble big-endian magnitude bytes from 15-bit limbs
        BigInteger r = BigInteger.ZERO;
        if (limbs.length <= 4) {
            long acc = 0;
            for (int i = limbs.length - 1; i >= 0; i--) {
                acc = (acc << LB) | ((IntValue) limbs[i]).val;
            }
            r = BigInteger.valueOf(acc);
        } else {
            final int nbits = limbs.length * LB;
            final byte[] mag = new byte[(nbits + 7) / 8 + 1];
            for (int i = 0; i < limbs.length; i++) {
                final int d = ((IntValue) limbs[i]).val;
                final int bit = i * LB;
                for (int b = 0; b < LB; b++) {
                    if (((d >> b) & 1) != 0) {
                        final int pos = bit + b;
                        mag[mag.length - 1 - (pos >> 3)] |= (byte) (1 << (pos & 7));
                    }
                }
            }
            r = new BigInteger(1, mag);
        }
        return s < 0 ? r.negate() : r;
    }

    static Value fromBig(final BigInteger x) {
        final int s = x.signum();
        if (s == 0) {
            return new TupleValue(new Value[] { IntValue.gen(0), new TupleValue(new Value[0]) });
        }
        final BigInteger a = x.abs();
        final int nbits = a.bitLength();
        final int n = (nbits + LB - 1) / LB;
        final Value[] limbs = new Value[n];
        if (nbits <= 62) {
            long v = a.longValue();
            for (int i = 0; i < n; i++) {
                limbs[i] = IntValue.gen((int) (v & MASK));
                v >>= LB;
            }
        } else {
            final byte[] mag = a.toByteArray(); // big-endian, two's complement (positive)
            for (int i = 0; i < n; i++) {
                int d = 0;
                final int bit = i * LB;
                for (int b = 0; b < LB; b++) {
                    final int pos = bit + b;
                    final int idx = mag.length - 1 - (pos >> 3);
                    if (idx >= 0 && ((mag[idx] >> (pos & 7)) & 1) != 0) {
                        d |= (1 << b);
                    }
                }
                limbs[i] = IntValue.gen(d);
            }
        }
        return new TupleValue(new Value[] { IntValue.gen(s), new TupleValue(limbs) });
    }

    @TLAPlusOperator(identifier = "BigAdd", module = "BigNum", warn = false)
    public static Value bigAdd(final Value x, final Value y) {
        return fromBig(toBig(x).add(toBig(y)));
    }

    @TLAPlusOperator(identifier = "BigSub", module = "BigNum", warn = false)
    public static Value bigSub(final Value x, final Value y) {
        return fromBig(toBig(x).subtract(toBig(y)));
    }

    @TLAPlusOperator(identifier = "BigMul", module = "BigNum", warn = false)
    public static Value bigMul(final Value x, final Value y) {
        if (SABOTAGE) { // self-test of the self-test: MC_BigNum must then fail
            return fromBig(toBig(x).multiply(toBig(y)).add(BigInteger.ONE));
        }
        return fromBig(toBig(x).multiply(toBig(y)));
    }

    @TLAPlusOperator(identifier = "BigCmp", module = "BigNum", warn = false)
    public static Value bigCmp(final Value x, final Value y) {
        return IntValue.gen(toBig(x).compareTo(toBig(y)));
    }

    @TLAPlusOperator(identifier = "BigPow", module = "Binomial", warn = false)
    public static Value bigPow(final Value x, final Value n) {
        return fromBig(toBig(x).pow(((IntValue) n).val));
    }

    /** sum over selected k of C(n,k) a^k (b-a)^(n-k): iterative weights with exact division */
    @TLAPlusOperator(identifier = "BinomSumSel", module = "Binomial", warn = false)
    public static Value binomSumSel(final Value nv, final Value av, final Value bv, final Value sel) {
        final int n = ((IntValue) nv).val;
        final BigInteger a = BigInteger.valueOf(((IntValue) av).val);
        final BigInteger c = BigInteger.valueOf(((IntValue) bv).val).subtract(a);
        final Value[] s = ((TupleValue) sel.toTuple()).elems;
        BigInteger w = c.pow(n);           // k = 0
        BigInteger sum = BigInteger.ZERO;
        for (int k = 0; k <= n; k++) {
            if (((IntValue) s[k]).val == 1) {
                sum = sum.add(w);
            }
            if (k < n) {
                if (c.signum() == 0) {
                    w = (k + 1 == n) ? a.pow(n) : BigInteger.ZERO;
                } else {
                    w = w.multiply(BigInteger.valueOf(n - k)).multiply(a)
                         .divide(BigInteger.valueOf(k + 1).multiply(c));
                }
            }
        }
        return fromBig(sum);
    }

    @TLAPlusOperator(identifier = "BigDivFloor", module = "BigNum", warn = false)
    public static Value bigDivFloor(final Value x, final Value y) {
        return fromBig(toBig(x).divide(toBig(y)));      // x >= 0, y > 0
    }

    @TLAPlusOperator(identifier = "BigShr", module = "BigNum", warn = false)
    public static Value bigShr(final Value x, final Value k) {
        final BigInteger b = toBig(x);
        final BigInteger m = b.abs().shiftRight(((IntValue) k).val);
        return fromBig(b.signum() < 0 ? m.negate() : m);
    }

    @TLAPlusOperator(identifier = "BigShl", module = "BigNum", warn = false)
    public static Value bigShl(final Value x, final Value k) {
        return fromBig(toBig(x).shiftLeft(((IntValue) k).val));
    }
}
